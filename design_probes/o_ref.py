# reference outputs with plain pyrefact
import ast, sys, glob, os, textwrap, json, io, contextlib, signal
class TO(BaseException): pass
def _h(*a): raise TO()
signal.signal(signal.SIGALRM,_h)
import pyrefact
snips=[]
for f in sorted(glob.glob("/repo/tests/unit/test_*.py")):
    tree=ast.parse(open(f).read())
    for n in ast.walk(tree):
        if isinstance(n, ast.Tuple) and len(n.elts)==2 and all(isinstance(e, ast.Constant) and isinstance(e.value,str) for e in n.elts):
            snips.append(textwrap.dedent(n.elts[0].value).strip()+"\n")
snips=list(dict.fromkeys(snips))
res=[]
for s in snips:
    try:
        signal.alarm(30)
        with contextlib.redirect_stdout(io.StringIO()), contextlib.redirect_stderr(io.StringIO()):
            out=pyrefact.format_code(s, safe=True)
        signal.alarm(0)
        res.append([s,"ok",out])
    except BaseException as e:
        signal.alarm(0); res.append([s,"exc",type(e).__name__])
json.dump(res,open("/tmp/probe/ref.json","w"))
print(len(res), sum(1 for r in res if r[1]=="exc"))
