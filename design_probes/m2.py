import sys, time, z3, ast
import loader; loader.install()
from pysym import *
from pysym import _e
SymInt.__mul__=lambda s,o: s._ar(o, lambda a,b:a*b)
SymInt.__rmul__=lambda s,o: s._ar(o, lambda a,b:b*a)
import pyrefact
SK=open("/dev/stdin").read() if False else '''
def main(n):
    total = []
    for i in range(n):
        if i > 7000 and i >= 7001:
            total.append(i)
    if 7000 < 7001:
        print("lt")
    else:
        print("ge")
    print(total)


main(8001)
'''
def symcode(src):
    tree=ast.parse(src)
    class T(ast.NodeTransformer):
        def visit_Constant(self,node):
            if type(node.value) is int and node.value in loader.MK.tab:
                return ast.copy_location(ast.Name(id=f"__m{node.value}",ctx=ast.Load()),node)
            return node
    tree=T().visit(tree); ast.fix_missing_locations(tree)
    return compile(tree,"<p>","exec")
def run(code, trace):
    def out(*vals): trace.append(tuple(vals))
    g={"print":out,"__name__":"__main__"}
    for m,e in loader.MK.tab.items(): g[f"__m{m}"]=SymInt(e)
    try: exec(code,g); return "ok"
    except Exception as e: return type(e).__name__
def same(v1,v2):
    sym=(SymInt,SymBool)
    if isinstance(v1,sym) or isinstance(v2,sym):
        t1="bool" if isinstance(v1,(SymBool,bool)) else "int" if isinstance(v1,(SymInt,int)) else "?"
        t2="bool" if isinstance(v2,(SymBool,bool)) else "int" if isinstance(v2,(SymInt,int)) else "?"
        if t1!=t2: return False
        return _e(v1)==_e(v2)
    if type(v1)!=type(v2): return False
    if isinstance(v1,(list,tuple)):
        if len(v1)!=len(v2): return False
        r=z3.BoolVal(True)
        for a,b in zip(v1,v2):
            s=same(a,b)
            if s is False: return False
            if s is not True: r=z3.And(r,s)
        return r
    return v1==v2
fails=[]
def h(eng):
    c1,c2,n=z3.Int("c1"),z3.Int("c2"),z3.Int("n")
    eng.solver.add(n>=0,n<=5,c1>=-2,c1<=6,c2>=-2,c2<=6)
    loader.MK.tab={7000:c1,7001:c2,8001:n}
    for m in list(sys.modules.values()):
        if getattr(m,"__name__","").startswith("pyrefact"):
            for v in vars(m).values():
                if hasattr(v,"cache_clear"): v.cache_clear()
    out=pyrefact.format_code(SK, safe=True)
    t1=[];t2=[]
    r1=run(symcode(SK),t1)
    if r1!="ok": return True
    r2=run(symcode(out),t2)
    if r2!="ok":
        fails.append((out,r2)); return False
    return same(t1,t2)
eng=Engine(); t=time.time()
res=eng.explore(h); print(res, eng.paths, round(time.time()-t,2))
for o,r in fails[:1]: print(o, r)
