import ast, time, z3, sys
from pysym import *
from pysym import _e
import shadow
from pyrefact import core as realcore
core=shadow.shadow("pyrefact.core"); processing=shadow.shadow("pyrefact.processing"); pm=shadow.shadow("pyrefact.pattern_matching")
processing.core=core; pm.core=core; pm.processing=processing
realcore.Range.__hash__=lambda s:7; core.Range.__hash__=lambda s:7

# (A) subn symbolic count
SRC="x = 1\ny = 2\nx = 1\nif q:\n    x = 1\n"
def hA(eng):
    c=SymInt(z3.Int("count"))
    new,n=pm.subn("x = 1","x = 9",SRC,count=c)
    k=3
    applied=new.count("x = 9")
    exp=z3.If(c.e>0, z3.If(c.e<k,c.e,k), k)
    nn=_e(n) if not isinstance(n,int) else z3.IntVal(n)
    return z3.And(nn==exp, z3.IntVal(applied)==exp)
eng=Engine(); print("A", eng.explore(hA), eng.paths)

# (B) has_ignore_comment symbolic range
S2="a = 1\nb = 2  # pyrefact: ignore\n\nc = 3 #pyrefact:skip_file\nd = 4"
lines=[]; p=0
for l in S2.splitlines(keepends=True):
    lines.append((p,p+len(l),"pyrefact" in l)); p+=len(l)
def hB(eng):
    a=z3.Int("a"); b=z3.Int("b"); eng.solver.add(0<=a,a<=b,b<=len(S2))
    got=core.has_ignore_comment(S2, core.Range(SymInt(a),SymInt(b)))
    ref=z3.Or(*[z3.And(a<le, ls<b) for ls,le,ann in lines if ann])
    return ref if got else z3.Not(ref)
eng=Engine(); print("B", eng.explore(hB), eng.paths)

# (C) Match._lineno_col_offset symbolic start
S3="ab\n\ncdé f\r\nlast"
ls=[]; p=0
for l in S3.splitlines(keepends=True): ls.append(p); p+=len(l)
def hC(eng):
    s=z3.Int("s"); eng.solver.add(0<=s,s<=len(S3))
    m=core.Match(core.Range(SymInt(s),SymInt(s)),S3,())
    ln,col=m._lineno_col_offset()
    ln_e=_e(ln) if not isinstance(ln,int) else z3.IntVal(ln); col_e=_e(col)
    # reference: ln is the unique line with ls[ln-1] <= s < ls[ln] (or last)
    conds=[]
    for i,st in enumerate(ls):
        hi = ls[i+1] if i+1<len(ls) else len(S3)+1
        conds.append(z3.Implies(z3.And(s>=st, s<hi), z3.And(ln_e==i+1, col_e==s-st)))
    return z3.And(*conds)
eng=Engine(); print("C", eng.explore(hC), eng.paths)
