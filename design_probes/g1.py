import ast, time, z3, sys, builtins, re, itertools, textwrap
from pysym import *
from pysym import _e
from pyrefact import core

ATOMS = ["eff()", "return", "raise E()", "break", "continue", "pass", "assert c()", "assert False", "assert True"]
def compounds(bodies):
    for b in bodies:
        yield f"if c():\n{ind(b)}"
        yield f"while c():\n{ind(b)}"
        yield f"while True:\n{ind(b)}"
        yield f"while 1 > 2:\n{ind(b)}"
        yield f"if True:\n{ind(b)}"
        yield f"for _ in it():\n{ind(b)}"
        yield f"for _ in (1, 2):\n{ind(b)}"
        yield f"for _ in ():\n{ind(b)}"
        yield f"with cm():\n{ind(b)}"
        yield f"try:\n{ind(b)}\nexcept E:\n    pass"
    for b1, b2 in itertools.product(bodies, repeat=2):
        yield f"if c():\n{ind(b1)}\nelse:\n{ind(b2)}"
        yield f"while c():\n{ind(b1)}\nelse:\n{ind(b2)}"
        yield f"for _ in it():\n{ind(b1)}\nelse:\n{ind(b2)}"
        yield f"if False:\n{ind(b1)}\nelse:\n{ind(b2)}"
def ind(s): return textwrap.indent(s, "    ")

level0 = list(ATOMS)
bodies1 = level0 + [a+"\n"+b for a in ["eff()"] for b in ["return","break","continue","eff()"]]
level1 = list(compounds(bodies1))
print(len(level0), len(level1))

class E(Exception): pass
class Fall(Exception): pass
def classify(stmt_src, depth_limit=40):
    """symbolically execute `stmt; FALL` inside loop in function, returns whether fallthrough reachable"""
    prog = "def main():\n    for _k in (1, 2):\n" + ind(ind(stmt_src)) + "\n        fall()\n"
    code = compile(prog, "<s>", "exec")
    reached = [False]
    def harness(eng):
        tape=[SymBool(z3.Bool(f"t{i}")) for i in range(8)]
        class Out(Exception): pass
        def c():
            if not tape: raise Out()
            return tape.pop()
        def it():
            # iterator of symbolic length 0..2
            n=0
            while n<2 and c(): n+=1; yield n
        class cm:
            def __enter__(s): return s
            def __exit__(s,*a): return False
        def fall(): reached[0]=True; raise Fall()
        g={"c":c,"it":it,"cm":cm,"eff":lambda:None,"E":E,"fall":fall}
        exec(code,g)
        steps=[0]
        def tr(frame,event,arg):
            if frame.f_code.co_filename!="<s>": return None
            def lt(frame,event,arg):
                steps[0]+=1
                if steps[0]>200: raise Out()
                return lt
            return lt
        sys.settrace(tr)
        try: g["main"]()
        except (Fall, E, Out, AssertionError): pass
        finally: sys.settrace(None)
        return True
    eng=Engine(); eng.explore(harness)
    return reached[0], eng.paths

t0=time.time(); bad=[]; n=0; paths=0
for s in level0+level1:
    node=ast.parse("def f():\n  for _ in x:\n"+ind(ind(s))).body[0].body[0].body[0]
    try: blk=core.is_blocking(node)
    except Exception as e: bad.append((s,"EXC",repr(e))); continue
    reach,p=classify(s); n+=1; paths+=p
    if blk and reach: bad.append((s,"blocking-but-falls-through"))
print("shapes",n,"paths",paths,"wall",round(time.time()-t0,1),"bad",len(bad))
for b in bad[:40]: print(b)
