"""Source-transforming importer: the pyrefact package in this process is compiled from /repo source
with logging stripped and proxy-aware builtins injected."""
import ast, sys, importlib.abc, importlib.machinery, importlib.util, builtins, types, inspect
from pysym import *
from pysym import _e
import z3

def sym_isinstance(obj, types_):
    ts = types_ if builtins.isinstance(types_, tuple) else (types_,)
    if builtins.isinstance(obj, SymInt): return any(t in (int, object) for t in ts)
    if builtins.isinstance(obj, SymBool): return any(t in (bool, int, object) for t in ts)
    return builtins.isinstance(obj, types_)
class _Meta(type):
    def __call__(cls, *a):
        if len(a)==1:
            if builtins.isinstance(a[0], SymInt): return int
            if builtins.isinstance(a[0], SymBool): return bool
        return builtins.type(*a)
    def __instancecheck__(cls, o): return builtins.isinstance(o, builtins.type)
    def __subclasscheck__(cls, c): return builtins.issubclass(c, builtins.type)
class sym_type(type, metaclass=_Meta): pass

class Markers:
    def __init__(self): self.tab={}
    def fresh(self, e):
        for m,ex in self.tab.items():
            if ex.eq(e): return m
        for m,ex in list(self.tab.items()):
            if SymBool(ex==e): return m
        m=7000+len(self.tab)
        while m in self.tab: m+=1
        self.tab[m]=e; return m
MK=Markers()
SymInt.__repr__=lambda s: str(MK.fresh(s.e))
SymInt.__str__=SymInt.__repr__
SymBool.__repr__=lambda s: "True" if bool(s) else "False"

def seed(tree):
    for n in ast.walk(tree):
        if isinstance(n, ast.Constant) and type(n.value) is int and n.value in MK.tab:
            n.value=SymInt(MK.tab[n.value])
    return tree
_ns=dict(vars(ast)); _ns["isinstance"]=sym_isinstance; _ns["type"]=sym_type
exec(compile(inspect.getsource(ast.literal_eval), "<ast.literal_eval>", "exec"), _ns)
shadow_ast=types.ModuleType("ast"); shadow_ast.__dict__.update(vars(ast))
shadow_ast.parse=lambda *a,**k: seed(ast.parse(*a,**k)); shadow_ast.literal_eval=_ns["literal_eval"]

class StripLog(ast.NodeTransformer):
    def visit_Expr(self, node):
        v=node.value
        if isinstance(v, ast.Call) and isinstance(v.func, ast.Attribute) and isinstance(v.func.value, ast.Name) and v.func.value.id=="logger":
            return ast.copy_location(ast.Pass(), node)
        return node

class Loader(importlib.machinery.SourceFileLoader):
    def source_to_code(self, data, path, *, _optimize=-1):
        tree=StripLog().visit(ast.parse(data)); ast.fix_missing_locations(tree)
        return compile(tree, path, "exec", dont_inherit=True)
    def get_code(self, fullname):
        return self.source_to_code(self.get_data(self.get_filename(fullname)), self.get_filename(fullname))
    def exec_module(self, module):
        module.__dict__.update(isinstance=sym_isinstance, type=sym_type)
        super().exec_module(module)
        if "ast" in module.__dict__ and module.__dict__["ast"] is ast:
            module.__dict__["ast"]=shadow_ast

class Finder(importlib.abc.MetaPathFinder):
    def find_spec(self, fullname, path, target=None):
        if fullname=="pyrefact" or fullname.startswith("pyrefact."):
            spec=importlib.machinery.PathFinder.find_spec(fullname, path)
            if spec and spec.origin and spec.origin.endswith(".py"):
                spec.loader=Loader(fullname, spec.origin)
            return spec
        return None
def install():
    assert "pyrefact" not in sys.modules
    sys.meta_path.insert(0, Finder())
