import time, z3, sys
from pyrefact import core
import shadow
from pysym import *
processing = shadow.shadow("pyrefact.processing")
SRC = "x" * 40 + "\n"
N = int(sys.argv[1]) if len(sys.argv)>1 else 2

def harness(eng):
    vs=[]
    for i in range(N):
        a=z3.Int(f"a{i}"); b=z3.Int(f"b{i}")
        eng.solver.add(0<=a, a<=b, b<=40)
        vs.append((SymInt(a),SymInt(b)))
    def rule(source):
        for i,(a,b) in enumerate(vs):
            yield core.Range(a,b), "T%d"%i
    res = processing._schedule_rewrites(SRC, [(rule, [SRC], {})])
    ranges = [r for (_t, (r, _rw)) in res]
    prop = z3.BoolVal(True)
    for i in range(len(ranges)):
        for j in range(i + 1, len(ranges)):
            prop = z3.And(prop, z3.Not(z3.And(ranges[i].start.e < ranges[j].end.e, ranges[j].start.e < ranges[i].end.e)))
    return prop
t=time.time()
eng=Engine()
print(eng.explore(harness), "paths",eng.paths,"checks",eng.checks,"solver_s",round(eng.solver_time,2),"wall",round(time.time()-t,2))
