#!/bin/bash
# usage: mutate.sh <file> <python-regex-old> <new> ; restores pristine copy first
rm -rf /tmp/mut/pyrefact && cp -r /repo/pyrefact /tmp/mut/pyrefact
/verif/.venv/bin/python - "$@" <<'PY'
import sys,re
f,old,new=sys.argv[1:4]
p="/tmp/mut/pyrefact/"+f; s=open(p).read()
assert s.count(old)>=1, "pattern not found"
s=s.replace(old,new,1); open(p,"w").write(s); print("mutated",f,":",old.strip()[:60],"->",new.strip()[:60])
PY
