import ast, time, z3, sys, builtins, itertools
from pysym import *
import shadow
core = shadow.shadow("pyrefact.core")
Z, O, M, P = core.ZeroOrOne, core.ZeroOrMany, core.OneOrMany, None

def regex_of(template):
    parts=[]
    for t in template:
        if isinstance(t, core.ZeroOrOne): parts.append(z3.Option(z3.Re(z3.Unit(z3.IntVal(t.template)))))
        elif isinstance(t, core.ZeroOrMany): parts.append(z3.Star(z3.Re(z3.Unit(z3.IntVal(t.template)))))
        elif isinstance(t, core.OneOrMany): parts.append(z3.Plus(z3.Re(z3.Unit(z3.IntVal(t.template)))))
        else: parts.append(z3.Re(z3.Unit(z3.IntVal(t))))
    if not parts: return z3.Re(z3.Empty(z3.SeqSort(z3.IntSort())))
    r=parts[0]
    for p in parts[1:]: r=z3.Concat(r,p)
    return r

def check(template, n):
    R=regex_of(template)
    def harness(eng):
        letters=[z3.Int(f"w{i}") for i in range(n)]
        for l in letters: eng.solver.add(l>=0,l<=2)
        word=[SymInt(l) for l in letters]
        got=bool(core._match_list(word, list(template), core.DEFAULT_IGNORE))
        seq = z3.Empty(z3.SeqSort(z3.IntSort()))
        for l in letters: seq=z3.Concat(seq, z3.Unit(l)) if n>0 else seq
        inre=z3.InRe(seq,R)
        return inre if got else z3.Not(inre)
    eng=Engine(); res=eng.explore(harness)
    return res, eng.paths, eng.checks

atoms=[0,1]
elems=[a for a in atoms]+[core.ZeroOrOne(a) for a in atoms]+[core.ZeroOrMany(a) for a in atoms]+[core.OneOrMany(a) for a in atoms]
t0=time.time(); tot=0; paths=0; bad=[]
for L in range(0,4):
    for template in itertools.product(elems, repeat=L):
        for n in range(0,5):
            res,p,c=check(template,n); tot+=1; paths+=p
            if res[0]!="confirmed": bad.append((template,n,res))
print("queries",tot,"paths",paths,"wall",round(time.time()-t0,1)); print(bad[:5])
