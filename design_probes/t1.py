import json, io, contextlib, signal, collections
class TO(BaseException): pass
def _h(*a): raise TO()
signal.signal(signal.SIGALRM,_h)
import pyrefact
ref=json.load(open("/tmp/probe/ref.json"))
st=collections.Counter(); bad=[]
for src,kind,out in ref:
    if kind!="ok": continue
    seq=[src]
    try:
        signal.alarm(120)
        with contextlib.redirect_stdout(io.StringIO()), contextlib.redirect_stderr(io.StringIO()):
            for i in range(7):
                seq.append(pyrefact.format_code(seq[-1], safe=False))
        signal.alarm(0)
    except BaseException as e:
        signal.alarm(0); st["exc_"+type(e).__name__]+=1; continue
    # first fixed point index
    fp=next((i for i in range(1,len(seq)) if seq[i]==seq[i-1]), None)
    if fp is None: st["no_fixpoint_in_7"]+=1; bad.append(src)
    else:
        st[f"fixpoint_after_{fp-1}"]+=1
        if fp-1>5: bad.append(src)
print(st)
for b in bad[:5]: print("-----"); print(b[:400])
