from typing import List, Tuple
from pyrefact import core, processing

SRC = "x" * 40 + "\n"

def sched2(a0: int, a1: int, b0: int, b1: int) -> bool:
    """
    pre: 0 <= a0 <= a1 <= 40 and 0 <= b0 <= b1 <= 40
    post: _
    """
    def rule(source):
        yield core.Range(a0, a1), "A"
        yield core.Range(b0, b1), "B"
    res = processing._schedule_rewrites(SRC, [(rule, [SRC], {})])
    ranges = [r for (_t, (r, _rw)) in res]
    # no two accepted overlap
    for i in range(len(ranges)):
        for j in range(i + 1, len(ranges)):
            if ranges[i].start < ranges[j].end and ranges[j].start < ranges[i].end:
                return False
    return True
