import ast, time, z3, sys, builtins
from pysym import *
import pyrefact
from pyrefact import symbolic_math

class Halt(Exception): pass

def run(src, args, trace):
    def out(*vals):
        trace.append(tuple(vals))
    g = {"print": out, "__name__": "__pysym__"}
    exec(compile(src, "<p>", "exec"), g)
    try:
        g["main"](*args)
        return "ok"
    except Halt: raise
    except Exception as e:
        return type(e).__name__

def same(v1, v2):
    # returns z3 Bool (or python bool) for equality of two trace values
    if isinstance(v1,(SymInt,SymBool)) or isinstance(v2,(SymInt,SymBool)):
        t1 = "bool" if isinstance(v1,(SymBool,bool)) else "int" if isinstance(v1,(SymInt,int)) else type(v1).__name__
        t2 = "bool" if isinstance(v2,(SymBool,bool)) else "int" if isinstance(v2,(SymInt,int)) else type(v2).__name__
        if t1!=t2: return False
        return _e(v1)==_e(v2)
    if type(v1)!=type(v2): return False
    if isinstance(v1,(list,tuple)):
        if len(v1)!=len(v2): return False
        r=z3.BoolVal(True)
        for a,b in zip(v1,v2):
            s=same(a,b)
            if s is False: return False
            if s is not True: r=z3.And(r,s)
        return r
    return v1==v2

def tv(before, after, nargs, lo=-2, hi=12):
    def harness(eng):
        args=[]
        for i in range(nargs):
            v=z3.Int(f"n{i}"); eng.solver.add(v>=lo, v<=hi); args.append(SymInt(v))
        t1=[]; t2=[]
        r1=run(before,args,t1)
        if r1!="ok": return True   # original does not terminate normally: outside class
        r2=run(after,args,t2)
        if r2!="ok": return False
        return same(t1,t2)
    eng=Engine(); t=time.time()
    res=eng.explore(harness)
    return res, eng.paths, eng.checks, round(time.time()-t,2)

P1 = "def main(n):\n    print([x for x in range(n, 10) if x > 5])\n"
P2 = "def main(n):\n    print([x for x in range(0, n) if x >= 2])\n"
P3 = "def main(n):\n    print(sum(range(3, n)))\n"
P4 = "def main(n):\n    if n < 3 and n < 5:\n        print(1)\n    else:\n        print(2)\n"
for P in (P1,P2,P3,P4):
    Q = pyrefact.format_code(P, safe=True)
    print("----"); print(Q)
    print(tv(P,Q,1))
