"""Minimal proxy-based symbolic executor (probe)."""
import z3, time

class Abort(BaseException): pass

class Engine:
    cur = None
    def __init__(self):
        self.decisions = []
        self.paths = 0
        self.checks = 0
        self.solver_time = 0.0
    def _sat(self, *extra):
        t=time.time()
        self.checks += 1
        r = self.solver.check(*extra)
        self.solver_time += time.time()-t
        return r == z3.sat
    def branch(self, cond):
        cond = z3.simplify(cond)
        if z3.is_true(cond): return True
        if z3.is_false(cond): return False
        if self.pos < len(self.decisions):
            v = self.decisions[self.pos][0]
        else:
            t = self._sat(cond)
            f = self._sat(z3.Not(cond))
            if t and f:
                v = True; self.decisions.append([True, True])
            elif t:
                v = True; self.decisions.append([True, False])
            elif f:
                v = False; self.decisions.append([False, False])
            else:
                raise Abort("infeasible path")
        self.pos += 1
        self.solver.add(cond if v else z3.Not(cond))
        return v
    def explore(self, fn):
        """fn(engine) -> z3 Bool property to prove on that path (or python bool)."""
        cex = None
        while True:
            self.solver = z3.Solver()
            self.pos = 0
            Engine.cur = self
            self.paths += 1
            prop = fn(self)
            if isinstance(prop, SymBool): prop = prop.e
            if prop is not True:
                if prop is False or self._sat(z3.Not(prop)):
                    cex = self.solver.model() if prop is False and self._sat() else self.solver.model()
                    return ("refuted", cex)
            while self.decisions and not self.decisions[-1][1]:
                self.decisions.pop()
            if not self.decisions:
                return ("confirmed", None)
            d = self.decisions[-1]; d[0] = not d[0]; d[1] = False

def _e(x):
    if isinstance(x, (SymInt, SymBool)): return x.e
    if isinstance(x, bool): return z3.BoolVal(x)
    if isinstance(x, int): return z3.IntVal(x)
    return NotImplemented

class SymBool:
    __slots__=("e",)
    def __init__(self, e): self.e = e
    def __bool__(self): return Engine.cur.branch(self.e)
    def __hash__(self): return 1

class SymInt:
    __slots__=("e",)
    def __init__(self, e): self.e = e
    def _cmp(self, o, f):
        o=_e(o)
        if o is NotImplemented: return NotImplemented
        return SymBool(f(self.e,o))
    def __lt__(s,o): return s._cmp(o, lambda a,b:a<b)
    def __le__(s,o): return s._cmp(o, lambda a,b:a<=b)
    def __gt__(s,o): return s._cmp(o, lambda a,b:a>b)
    def __ge__(s,o): return s._cmp(o, lambda a,b:a>=b)
    def __eq__(s,o): return s._cmp(o, lambda a,b:a==b)
    def __ne__(s,o): return s._cmp(o, lambda a,b:a!=b)
    def _ar(self,o,f):
        o=_e(o)
        if o is NotImplemented: return NotImplemented
        return SymInt(f(self.e,o))
    def __add__(s,o): return s._ar(o, lambda a,b:a+b)
    def __radd__(s,o): return s._ar(o, lambda a,b:b+a)
    def __sub__(s,o): return s._ar(o, lambda a,b:a-b)
    def __rsub__(s,o): return s._ar(o, lambda a,b:b-a)
    def __neg__(s): return SymInt(-s.e)
    def __hash__(self): return 7
    def __index__(self):
        eng=Engine.cur
        assert eng._sat()
        v=eng.solver.model().eval(self.e, model_completion=True).as_long()
        # fork on equality with model value
        if eng.branch(self.e == v): return v
        return self.__index__()
    def __repr__(self): return f"<{self.e}>"
