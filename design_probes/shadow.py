"""Build a shadow copy of a pyrefact module from current source with logging statements removed."""
import ast, importlib, sys, types

class StripLog(ast.NodeTransformer):
    def visit_Expr(self, node):
        v = node.value
        if isinstance(v, ast.Call) and isinstance(v.func, ast.Attribute) and isinstance(v.func.value, ast.Name) and v.func.value.id == "logger":
            return ast.Pass()
        return node

def shadow(modname):
    real = importlib.import_module(modname)
    src = open(real.__file__).read()
    tree = StripLog().visit(ast.parse(src))
    ast.fix_missing_locations(tree)
    m = types.ModuleType(modname + "__shadow")
    m.__file__ = real.__file__
    m.__package__ = real.__package__
    sys.modules[m.__name__] = m
    exec(compile(tree, real.__file__, "exec"), m.__dict__)
    return m
