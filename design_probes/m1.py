import sys, time, z3, ast
import loader; loader.install()
from pysym import *
from pysym import _e
SymInt.__mul__=lambda s,o: s._ar(o, lambda a,b:a*b)
SymInt.__rmul__=lambda s,o: s._ar(o, lambda a,b:b*a)
import pyrefact
from pyrefact import core
print(core.isinstance, core.__file__)
SK='''
def main(n):
    total = []
    for i in range(n):
        if i > 7000 and i >= 7001:
            total.append(i)
    if 7000 < 7001:
        print("lt")
    else:
        print("ge")
    print(total)


main(8001)
'''
outs=[]
def h(eng):
    loader.MK.tab={7000:z3.Int("c1"),7001:z3.Int("c2"),8001:z3.Int("n")}
    for m in list(sys.modules.values()):
        if getattr(m,"__name__","").startswith("pyrefact"):
            for v in vars(m).values():
                if hasattr(v,"cache_clear"): v.cache_clear()
    out=pyrefact.format_code(SK, safe=True)
    outs.append(out)
    return True
eng=Engine(); t=time.time()
try:
    print(eng.explore(h), eng.paths, round(time.time()-t,2))
except Exception:
    import traceback; traceback.print_exc()
for o in sorted(set(outs)): print("-----"); print(o)
