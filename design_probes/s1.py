import sys, time, z3, ast
import loader; loader.install()
from pysym import *
from pysym import _e
# canonicalising intern: smallest registered marker whose term equals e under the path condition
def fresh(self, e):
    for m in sorted(self.tab):
        ex=self.tab[m]
        if ex.eq(e): return m
        if SymBool(ex==e): return m
    m=7000+len(self.tab)
    while m in self.tab: m+=1
    self.tab[m]=e; return m
loader.Markers.fresh=fresh
from pyrefact import core, pattern_matching as pm
def clear():
    for mod in list(sys.modules.values()):
        if getattr(mod,"__name__","").startswith("pyrefact"):
            for vv in vars(mod).values():
                if hasattr(vv,"cache_clear"): vv.cache_clear()
def check(pattern, source, expect):   # expect: function(c1,c2,c3)-> z3 bool : 'pattern occurs'
    def h(eng):
        c=[z3.Int(f"c{i}") for i in range(3)]
        for x in c: eng.solver.add(x>=0)
        loader.MK.tab={7000+i:c[i] for i in range(3)}
        clear()
        got=len(pm.findall(pattern, source))>0
        e=expect(*c)
        return e if got else z3.Not(e)
    eng=Engine(); r=eng.explore(h); return r[0], (None if r[1] is None else str(r[1])), eng.paths
print(check("{{x}} + {{x}}", "y = 7000 + 7001\n", lambda a,b,c: a==b))
print(check("{{x}} + {{x}} + {{y}}", "y = 7000 + 7001 + 7002\n", lambda a,b,c: a==b))
print(check("f({{x}}, {{y}}, {{x}})", "f(7000, 7001, 7002)\n", lambda a,b,c: a==c))
print(check("[{{x}}, {{y*}}, {{x}}]", "[7000, 7001, 7002]\n", lambda a,b,c: a==c))
print(check("{{x}} + 3", "y = 7000 + 7001\n", lambda a,b,c: b==3))
print(check("7000 + {{x}}", "y = 7001 + 5\n", lambda a,b,c: a==b))
