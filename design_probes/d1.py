import ast, time, z3, sys, builtins, itertools, types
from pysym import *
import shadow
from pyrefact import constants
# extend proxies with more arithmetic
def _pydiv(a,b):  # python floor div on z3 ints
    q=a/b  # z3 int div is euclidean-ish (floor for positive divisor)
    return z3.If(b>0, a/b, -((-a)/(-b)) if False else (0-a)/(0-b) )
SymInt.__mul__=lambda s,o: s._ar(o, lambda a,b:a*b)
SymInt.__rmul__=lambda s,o: s._ar(o, lambda a,b:b*a)
class ZDE(Exception): pass
def _floordiv(s,o):
    oe=_e(o)
    if SymBool(oe==0): raise ZeroDivisionError("integer division or modulo by zero")
    # floor division: z3 '/' on ints is floor for b>0, ceil for b<0 (euclidean); fix up
    a,b=s.e,oe
    return SymInt(z3.If(b>0, a/b, (0-a)/(0-b)))
SymInt.__floordiv__=_floordiv
def _truediv(s,o):
    oe=_e(o)
    if SymBool(oe==0): raise ZeroDivisionError("division by zero")
    return SymReal(z3.ToReal(s.e)/z3.ToReal(oe))
class SymReal:
    def __init__(self,e): self.e=e
SymInt.__truediv__=_truediv

def sym_isinstance(obj, types_):
    ts = types_ if builtins.isinstance(types_, tuple) else (types_,)
    if builtins.isinstance(obj, SymInt): return any(t in (int, object) for t in ts)
    if builtins.isinstance(obj, SymBool): return any(t in (bool, int, object) for t in ts)
    return builtins.isinstance(obj, types_)
class _Meta(type):
    def __call__(cls, *a):
        if len(a)==1:
            if builtins.isinstance(a[0], SymInt): return int
            if builtins.isinstance(a[0], SymBool): return bool
        return builtins.type(*a)
    def __instancecheck__(cls, o): return builtins.isinstance(o, builtins.type)
    def __subclasscheck__(cls, c): return builtins.issubclass(c, builtins.type)
class sym_type(type, metaclass=_Meta): pass

core = shadow.shadow("pyrefact.core")
core.isinstance = sym_isinstance
core.type = sym_type
# shadow literal_eval from stdlib ast
import inspect
ns = dict(vars(ast)); ns["isinstance"]=sym_isinstance; ns["type"]=sym_type
exec(compile(inspect.getsource(ast.literal_eval), "<ast.literal_eval>", "exec"), ns)
shadow_ast = types.SimpleNamespace(**vars(ast)); shadow_ast.literal_eval = ns["literal_eval"]
core.ast = shadow_ast

def holes(src, mapping):
    tree=ast.parse(src, mode="eval").body
    for n in ast.walk(tree):
        if isinstance(n, ast.Constant) and n.value in mapping: n.value=mapping[n.value]
    return tree

def check(src):
    def harness(eng):
        a=SymInt(z3.Int("a")); b=SymInt(z3.Int("b"))
        tree=holes(src,{1001:a,1002:b})
        # reference: python's own evaluation over proxies
        ref_src=src.replace("1001","a").replace("1002","b")
        try:
            ref=("val", eval(ref_src, {"a":a,"b":b}))
        except Exception as e:
            ref=("exc", type(e).__name__)
        try:
            got=("val", core.literal_value(tree))
        except ValueError:
            got=("unknown",)
        except Exception as e:
            got=("exc", type(e).__name__)
        if got[0]=="exc": return False
        if got[0]=="unknown": return True
        if ref[0]=="exc": return False
        g,r=got[1],ref[1]
        if type(g)!=type(r): return False
        if isinstance(g,(SymInt,SymBool,SymReal)): return g.e==r.e
        return g==r
    eng=Engine(); t=time.time()
    try:
        res=eng.explore(harness)
    except Exception as e:
        import traceback; traceback.print_exc(); res=("error",repr(e))
    print(f"{src:28s}", res, "paths",eng.paths, round(time.time()-t,3))
for s in ["1001 + 1002", "1001 < 1002", "1001 // 1002", "1001 / 1002", "-1001 + 3", "1001 < 1002 < 5", "1001 and 1002", "not 1001", "(1001 > 1) == (1002 > 1)", "max(1001, 1002)", "1001 if 1002 else 3", "[1001, 2][0]"]:
    check(s)
