import ast, time, z3, sys, builtins, itertools, types
from pathlib import Path
from pysym import *
from pysym import _e
import shadow
main=shadow.shadow("pyrefact.main")
FILES=[Path("/p/a/x.py"),Path("/p/a/y.py"),Path("/p/b/z.py")]
def run(order, max_passes, n_cores):
    def h(eng):
        calls=[]
        chg={}
        def fmt(filename, preserve, safe):
            k=(str(filename), sum(1 for c in calls if c==str(filename)))
            calls.append(str(filename))
            b=chg.setdefault(k, SymBool(z3.Bool(f"chg_{filename.name}_{k[1]}")))
            return b
        class Pool:
            def __init__(s,n): pass
            def __enter__(s): return s
            def __exit__(s,*a): return False
            def starmap(s,f,it):
                tasks=list(it)
                # arbitrary execution order: reversed here (order choice could be symbolic)
                res={}
                for i in reversed(range(len(tasks))): res[i]=f(*tasks[i])
                return [res[i] for i in range(len(tasks))]
        main.mp=types.SimpleNamespace(Pool=Pool, cpu_count=lambda:4)
        main.format_file=fmt
        main._used_names_in_files=lambda fs: {}
        ret=main.format_files([FILES[i] for i in order], n_cores=n_cores, max_passes=max_passes)
        # reference sequential model (symbolic)
        folders={}
        for f in FILES: folders.setdefault(f.parent,[]).append(f)
        any_changed_final=[]
        exp_calls={}
        for folder,fs in folders.items():
            active=z3.BoolVal(True)  # changes-so-far flag
            last=z3.BoolVal(True)
            for p in range(max_passes):
                # folder formatted in pass p iff active
                ch=z3.Or(*[z3.Bool(f"chg_{f.name}_{p}") for f in fs])
                for f in fs: exp_calls[(str(f),p)]=active
                last=z3.If(active, ch, last)
                active=z3.And(active,ch)
            any_changed_final.append(last)
        exp_ret=z3.Or(*any_changed_final)
        # compare: ret and number of calls per file
        props=[(_e(ret) if not isinstance(ret,bool) else z3.BoolVal(ret))==exp_ret]
        for f in FILES:
            n=sum(1 for c in calls if c==str(f))
            props.append(z3.IntVal(n)==z3.Sum(*[z3.If(exp_calls[(str(f),p)],1,0) for p in range(max_passes)]))
        return z3.And(*props)
    eng=Engine(); r=eng.explore(h); return r[0], eng.paths, (None if r[1] is None else str(r[1]))
for order in itertools.permutations(range(3)):
    print(order, run(order,3,4))
