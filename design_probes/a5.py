import time, z3, sys, itertools
from pyrefact import core
import shadow
from pysym import *
processing = shadow.shadow("pyrefact.processing")
SRC = "aaaa\nbbbb  # pyrefact: ignore\ncccc\ndddd\n"
LINES=[(0,5,False),(5,30,True),(30,35,False),(35,40,False)]
assert len(SRC)==40, len(SRC)

def ov(a,b): return z3.And(a[0]<b[1], b[0]<a[1])

def run_cfg(cfg):
    """cfg: list of (group, txn or None, text) per rewrite; ranges symbolic"""
    N=len(cfg)
    def harness(eng):
        R=[]
        for i in range(N):
            a=z3.Int(f"a{i}"); b=z3.Int(f"b{i}")
            eng.solver.add(0<=a,a<=b,b<=40)
            R.append((a,b))
        groups=sorted({g for g,_,_ in cfg})
        funcs=[]
        for g in groups:
            def rule(source, g=g):
                for i,(gg,t,txt) in enumerate(cfg):
                    if gg==g:
                        r=core.Range(SymInt(R[i][0]),SymInt(R[i][1]))
                        yield (r,txt) if t is None else (r,txt,t)
            rule.__name__=f"rule{g}"
            funcs.append((rule,[SRC],{}))
        res=processing._schedule_rewrites(SRC, funcs)
        # concrete structure of result on this path: list of (txn, (range, rewrite))
        accepted=[(t,(r.start.e,r.end.e),rw.new) for (t,(r,rw)) in res]
        # ---- reference spec (symbolic formula) ----
        # transactions: key (group index, txn number); default txn numbers: -100000000+counter, counter increments per yielded tuple across all funcs
        cnt=-100000000; txn_of=[]
        for gi,g in enumerate(groups):
            for i,(gg,t,txt) in enumerate(cfg):
                if gg==g:
                    cnt+=1
                    txn_of.append((i,(gi, cnt if t is None else t)))
        txn_of=dict(txn_of)
        txns=sorted(set(txn_of.values()))
        members={t:[i for i in range(N) if txn_of[i]==t] for t in txns}
        # symbolic acceptance per txn in precedence order
        acc={}
        def same_rw(i,j): return z3.And(R[i][0]==R[j][0],R[i][1]==R[j][1]) if cfg[i][2]==cfg[j][2] else z3.BoolVal(False)
        def dup(t,u):  # u precedes t: identical tuple of rewrites in yield order
            if len(members[t])!=len(members[u]): return z3.BoolVal(False)
            return z3.And(*[same_rw(i,j) for i,j in zip(members[t],members[u])])
        dropped_dup={}
        for ti,t in enumerate(txns):
            # duplicate of any earlier (in sorted order) transaction that is itself still present... implementation: seen set over all sorted, deletes later ones; recomputed per group k over surviving txns
            dropped_dup[t]=z3.Or(*[z3.And(z3.Not(dropped_dup[u]),dup(t,u)) for u in txns[:ti]]) if ti else z3.BoolVal(False)
        for ti,t in enumerate(txns):
            ms=members[t]
            ign=z3.Or(*[z3.And(R[i][0]<le, ls<R[i][1]) for i in ms for (ls,le,ann) in LINES if ann])
            selfov=z3.Or(*[z3.And(ov(R[i],R[j]), z3.Not(same_rw(i,j))) for i,j in itertools.combinations(ms,2)]) if len(ms)>1 else z3.BoolVal(False)
            prev=z3.Or(*[z3.And(acc[u], ov(R[i],R[j])) for u in txns[:ti] for i in ms for j in members[u]]) if ti else z3.BoolVal(False)
            acc[t]=z3.And(z3.Not(dropped_dup[t]),z3.Not(ign),z3.Not(selfov),z3.Not(prev))
        # property: for each txn: accepted in real result iff acc[t]; all-or-nothing
        prop=[]
        for t in txns:
            real_members=[x for x in accepted if (x[0].group_number,x[0].transaction_number)==t]
            present = len(real_members)>0
            prop.append(acc[t] if present else z3.Not(acc[t]))
            if present:
                # every member rewrite present (modulo identical-duplicate collapse)
                for i in members[t]:
                    prop.append(z3.Or(*[z3.And(a==R[i][0],b==R[i][1]) for (_,(a,b),txt) in real_members if txt==cfg[i][2]]))
        # order: descending by start
        for x,y in zip(accepted,accepted[1:]):
            prop.append(x[1][0]>=y[1][0])
        return z3.And(*prop) if prop else True
    eng=Engine(); t=time.time(); res=eng.explore(harness)
    return res[0], (res[1] if res[1] is None else str(res[1])), eng.paths, round(time.time()-t,2)

cfgs=[
 [(0,None,"A"),(0,None,"B")],
 [(0,0,"A"),(0,0,"B")],
 [(0,0,"A"),(0,1,"A")],
 [(0,1,"A"),(0,0,"B"),(0,1,"C")],
 [(0,None,"A"),(1,None,"B"),(1,None,"C")],
 [(0,5,"A"),(1,5,"A"),(1,5,"B")],
]
for c in cfgs: print(c, run_cfg(c))
