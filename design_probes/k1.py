import ast, time, z3, sys, builtins, itertools, types
from pysym import *
from pysym import _e
SymInt.__mul__=lambda s,o: s._ar(o, lambda a,b:a*b)
SymInt.__rmul__=lambda s,o: s._ar(o, lambda a,b:b*a)
import shadow
fixes=shadow.shadow("pyrefact.fixes")
PASS,PLAIN,RET,RAISE,IFB=range(5)
class St:
    def __init__(s,name):
        s.kind=z3.Int(name+"_k"); s.nif=z3.Int(name+"_n"); s.ifblocking=z3.Bool(name+"_b")
def sym_isinstance(obj,types_):
    if builtins.isinstance(obj,St):
        ts=types_ if builtins.isinstance(types_,tuple) else (types_,)
        if ts==(ast.Pass,): return SymBool(obj.kind==PASS)
        if set(ts)=={ast.Return,ast.Continue,ast.Break}: return SymBool(obj.kind==RET)
        raise NotImplementedError(ts)
    return builtins.isinstance(obj,types_)
def blocking_e(st): return z3.Or(st.kind==RET, st.kind==RAISE, z3.And(st.kind==IFB, st.ifblocking))
fixes.isinstance=sym_isinstance
fixes.core=types.SimpleNamespace(is_blocking=lambda node,*a: SymBool(blocking_e(node)))
fixes._count_branches=lambda nodes: SymInt(1+sum((z3.If(n.kind==IFB,n.nif,0) for n in nodes), z3.IntVal(0)))
res=[]
for lb,lo in itertools.product(range(1,6),repeat=2):
    def h(eng):
        body=[St(f"b{i}") for i in range(lb)]; orelse=[St(f"o{i}") for i in range(lo)]
        for blk in (body,orelse):
            for i,st in enumerate(blk):
                eng.solver.add(st.kind>=0,st.kind<=4, st.nif>=1)
                if i<len(blk)-1: eng.solver.add(z3.Not(blocking_e(st)))   # invariant: only last may block
        eng.solver.add(z3.Or(*[st.kind!=PASS for st in body]), z3.Or(*[st.kind!=PASS for st in orelse]))
        p1=fixes._orelse_preferred_as_body(body,orelse)
        p2=fixes._orelse_preferred_as_body(orelse,body)
        e1=_e(p1); e2=_e(p2)
        return z3.Not(z3.And(e1,e2))
    eng=Engine(); r=eng.explore(h); res.append(((lb,lo),r[0],eng.paths, None if r[1] is None else str(r[1])[:300]))
for r in res:
    if r[1]!="confirmed": print(r)
print(sum(1 for r in res if r[1]=="confirmed"),"/",len(res),"confirmed; paths",sum(r[2] for r in res))
