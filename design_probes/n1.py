import signal
class TO(BaseException): pass
def _h(*a): raise TO()
signal.signal(signal.SIGALRM,_h)
import ast, sys, glob, os, builtins, textwrap, collections, io, contextlib
sys.path.insert(0,"/repo/tests"); sys.path.insert(0,"/repo/tests/unit")
import pyrefact
from pyrefact import fixes, performance, performance_numpy, performance_pandas, symbolic_math, object_oriented, abstractions, tracing
MODS=[fixes, performance, performance_numpy, performance_pandas, symbolic_math, object_oriented, abstractions, tracing]
def find_rule(name):
    for m in MODS:
        if hasattr(m,name): return getattr(m,name)
snips=collections.defaultdict(list)
for f in sorted(glob.glob("/repo/tests/unit/test_*.py")):
    rule=os.path.basename(f)[5:-3]
    tree=ast.parse(open(f).read())
    for n in ast.walk(tree):
        if isinstance(n, ast.Tuple) and len(n.elts)==2 and all(isinstance(e, ast.Constant) and isinstance(e.value,str) for e in n.elts):
            snips[rule].append(textwrap.dedent(n.elts[0].value).strip()+"\n")
print("rules with snippets:",len(snips),"snippets:",sum(map(len,snips.values())))
BUILT=set(dir(builtins))
def free_names(tree):
    loads=[];stores=set();called=set();iterated=set();attr=collections.defaultdict(set);subs=set()
    for n in ast.walk(tree):
        if isinstance(n,ast.Name):
            (stores.add(n.id) if isinstance(n.ctx,(ast.Store,ast.Del)) else loads.append(n.id))
        if isinstance(n,(ast.FunctionDef,ast.ClassDef,ast.AsyncFunctionDef)): stores.add(n.name)
        if isinstance(n,ast.arg): stores.add(n.arg)
        if isinstance(n,(ast.Import,ast.ImportFrom)):
            for a in n.names: stores.add((a.asname or a.name).split(".")[0])
        if isinstance(n,ast.Call) and isinstance(n.func,ast.Name): called.add(n.func.id)
        if isinstance(n,(ast.For,ast.comprehension)) and isinstance(n.iter,ast.Name): iterated.add(n.iter.id)
        if isinstance(n,ast.Attribute) and isinstance(n.value,ast.Name): attr[n.value.id].add(n.attr)
        if isinstance(n,ast.Subscript) and isinstance(n.value,ast.Name): subs.add(n.value.id)
    free=[x for x in dict.fromkeys(loads) if x not in BUILT and x not in stores]
    return free,called,iterated,attr,subs
stats=collections.Counter(); per_rule=collections.Counter(); fired_rule=collections.Counter()
for rule,ss in snips.items():
    r=find_rule(rule)
    for s in ss:
        stats["total"]+=1
        try: tree=ast.parse(s)
        except SyntaxError: stats["syntax"]+=1; continue
        free,called,iterated,attr,subs=free_names(tree)
        env={}
        for x in free:
            if x in called: env[x]=(lambda *a,**k: 1)
            elif x in iterated or attr[x]&{"append","extend","sort","index","count"}: env[x]=[1,2,3]
            elif attr[x]&{"add","union","update"}: env[x]={1,2}
            elif attr[x]&{"items","keys","values","get","setdefault"}: env[x]={1:2}
            elif x in subs: env[x]=[1,2,3]
            else: env[x]=2
        has_return=any(isinstance(n,(ast.Return,ast.Yield)) for n in ast.walk(tree)) and not any(isinstance(n,(ast.FunctionDef)) for n in tree.body)
        body=textwrap.indent(s,"    ") if True else s
        prog="def __main__("+",".join(free)+"):\n"+body+"\n    return None\n"
        try:
            code=compile(prog,"<s>","exec")
        except SyntaxError: stats["wrap_syntax"]+=1; continue
        g={"exit":lambda *a:None,"quit":lambda *a:None,"input":lambda *a:"1","open":None,"breakpoint":lambda *a:None,"help":lambda *a:None}
        try:
            signal.alarm(2)
            with contextlib.redirect_stdout(io.StringIO()):
                exec(code,g); g["__main__"](**env)
            signal.alarm(0)
            stats["runs_ok"]+=1; per_rule[rule]+=1
            if r is not None:
                try:
                    signal.alarm(20)
                    with contextlib.redirect_stdout(io.StringIO()), contextlib.redirect_stderr(io.StringIO()):
                        out=r(s) if "preserve" not in r.__code__.co_varnames[:r.__code__.co_argcount] else r(s,preserve=set())
                    signal.alarm(0)
                    if out!=s: fired_rule[rule]+=1; stats["runs_ok_and_fires"]+=1
                except BaseException as e: stats["rule_exc"]+=1
        except BaseException as e:
            signal.alarm(0); stats["runtime_"+type(e).__name__]+=1
print(stats)
print("rules with >=1 runnable snippet:",len(per_rule),"of",len(snips)); print("rules with >=1 runnable firing snippet:",len(fired_rule))
print("no runnable:",[r for r in snips if r not in per_rule])
