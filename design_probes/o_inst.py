import sys, time, z3, ast, json, io, contextlib, signal, re, collections
class TO(BaseException): pass
def _h(*a): raise TO()
signal.signal(signal.SIGALRM,_h)
import loader; loader.install()
from pysym import *
from pysym import _e
# richer proxies for the fidelity run
def _ar(f): return lambda s,o: s._ar(o,f)
SymInt.__mul__=_ar(lambda a,b:a*b); SymInt.__rmul__=_ar(lambda a,b:b*a)
SymInt.__mod__=_ar(lambda a,b:a%b); SymInt.__rmod__=_ar(lambda a,b:b%a)
SymInt.__pos__=lambda s:s; SymInt.__abs__=lambda s: SymInt(z3.If(s.e>=0,s.e,-s.e))
SymInt.__int__=lambda s: s.__index__()
SymInt.__float__=lambda s: float(s.__index__())
def _fd(s,o):
    oe=_e(o)
    if SymBool(oe==0): raise ZeroDivisionError("integer division or modulo by zero")
    return SymInt(z3.If(oe>0, s.e/oe, (0-s.e)/(0-oe)))
SymInt.__floordiv__=_fd
def _td(s,o): return s.__index__()/ (o.__index__() if isinstance(o,SymInt) else o)
SymInt.__truediv__=_td; SymInt.__rtruediv__=lambda s,o: o/s.__index__()
SymInt.__pow__=lambda s,o: s.__index__()**(o.__index__() if isinstance(o,SymInt) else o)
SymInt.__rpow__=lambda s,o: o**s.__index__()
SymInt.__format__=lambda s,spec: format(s.__index__(),spec)
import pyrefact
ref=json.load(open("/tmp/probe/ref.json"))
stats=collections.Counter(); gaps=[]
t0=time.time()
for idx,(src,kind,refout) in enumerate(ref):
    # markerise: each distinct non-negative int literal (not bool) -> marker 70000+i
    try: tree=ast.parse(src)
    except SyntaxError: stats["syntax"]+=1; continue
    vals=[]
    for n in ast.walk(tree):
        if isinstance(n,ast.Constant) and type(n.value) is int and n.value not in vals: vals.append(n.value)
    if not vals: stats["no_int_literals"]+=1; continue
    # textual substitution using token positions
    import tokenize
    toks=list(tokenize.generate_tokens(io.StringIO(src).readline))
    out=[]; m={}
    lines=src.splitlines(keepends=True)
    repl=[]
    for t in toks:
        if t.type==tokenize.NUMBER and re.fullmatch(r"[0-9]+",t.string):
            v=int(t.string); mk=70000+vals.index(v) if v in vals else None
            if mk: repl.append((t.start,t.end,str(mk))); m[mk]=v
    for (sl,sc),(el,ec),txt in sorted(repl,reverse=True):
        L=lines[sl-1]; lines[sl-1]=L[:sc]+txt+L[ec:]
    msrc="".join(lines)
    result={}
    def h(eng):
        loader.MK.tab={}
        for mk,v in m.items():
            x=z3.Int(f"m{mk}"); eng.solver.add(x==v); loader.MK.tab[mk]=x
        for mod in list(sys.modules.values()):
            if getattr(mod,"__name__","").startswith("pyrefact"):
                for vv in vars(mod).values():
                    if hasattr(vv,"cache_clear"): vv.cache_clear()
        try:
            with contextlib.redirect_stdout(io.StringIO()), contextlib.redirect_stderr(io.StringIO()):
                o=pyrefact.format_code(msrc, safe=True)
            # substitute markers back (including fresh ones: evaluate via model)
            assert eng._sat(); mdl=eng.solver.model()
            def back(mo):
                mk=int(mo.group())
                if mk in loader.MK.tab: return str(mdl.eval(loader.MK.tab[mk],model_completion=True))
                return mo.group()
            o2=re.sub(r"\b7\d{4}\b",back,o)
            result["v"]=("ok",o2)
        except Exception as e:
            import traceback
            result["v"]=("exc",type(e).__name__, traceback.format_exc()[-600:])
        return True
    eng=Engine()
    try:
        signal.alarm(60); eng.explore(h); signal.alarm(0)
    except BaseException as e:
        signal.alarm(0); result["v"]=("exc",type(e).__name__,"outer")
    stats["run"]+=1; stats["paths"]+=eng.paths
    got=result.get("v")
    if kind=="ok" and got and got[0]=="ok" and got[1]==refout: stats["agree"]+=1
    elif kind=="exc" and got and got[0]=="exc" and got[1]==refout: stats["agree_exc"]+=1
    else:
        stats["GAP"]+=1; gaps.append((idx,src,kind,refout,got))
print(stats, round(time.time()-t0,1),"s")
json.dump(gaps,open("/tmp/probe/gaps.json","w"))
for g in gaps[:12]:
    print("-----",g[0]); print(g[1][:300]); print("REF:",g[2],str(g[3])[:300]); print("GOT:",str(g[4])[:700])
