import ast, time, z3, sys, builtins, itertools, types, re
from pysym import *
from pysym import _e
import shadow
SymInt.__mul__=lambda s,o: s._ar(o, lambda a,b:a*b)
SymInt.__rmul__=lambda s,o: s._ar(o, lambda a,b:b*a)

def sym_isinstance(obj, types_):
    ts = types_ if builtins.isinstance(types_, tuple) else (types_,)
    if builtins.isinstance(obj, SymInt): return any(t in (int, object) for t in ts)
    if builtins.isinstance(obj, SymBool): return any(t in (bool, int, object) for t in ts)
    return builtins.isinstance(obj, types_)
class _Meta(type):
    def __call__(cls, *a):
        if len(a)==1:
            if builtins.isinstance(a[0], SymInt): return int
            if builtins.isinstance(a[0], SymBool): return bool
        return builtins.type(*a)
    def __instancecheck__(cls, o): return builtins.isinstance(o, builtins.type)
    def __subclasscheck__(cls, c): return builtins.issubclass(c, builtins.type)
class sym_type(type, metaclass=_Meta): pass

# ---- marker table: marker literal <-> z3 expr, per path
class Markers:
    def __init__(self): self.tab={}  # marker int -> z3 expr
    def fresh(self, e):
        eng=Engine.cur
        for m,ex in self.tab.items():
            if ex.eq(e): return m
        for m,ex in list(self.tab.items()):
            if SymBool(ex==e): return m      # forks on value equality with an existing marker
        m=7000+len(self.tab); self.tab[m]=e; return m
MK=None
SymInt.__repr__=lambda s: str(MK.fresh(s.e))
SymInt.__str__=SymInt.__repr__

# shadow package: core, processing, symbolic_math wired together
core=shadow.shadow("pyrefact.core"); processing=shadow.shadow("pyrefact.processing"); sm=shadow.shadow("pyrefact.symbolic_math")
for m in (core,processing,sm):
    m.isinstance=sym_isinstance; m.type=sym_type
processing.core=core; sm.core=core; sm.processing=processing
real_parse=ast.parse
def seed(tree):
    for n in ast.walk(tree):
        if isinstance(n, ast.Constant) and type(n.value) is int and n.value in MK.tab:
            n.value=SymInt(MK.tab[n.value])
    return tree
core.parse=lambda s: seed(real_parse(s))
# processing.fix was applied at import inside shadow sm using shadow processing? sm imported processing from pyrefact (real) at exec time, so decorated wrappers are real; rebuild wrappers:
def rule(name): return processing.fix(getattr(sm,name)._fix_func)

def to_z3(node, env):
    if isinstance(node, ast.BoolOp):
        vs=[to_z3(v, env) for v in node.values]; return z3.And(*vs) if isinstance(node.op, ast.And) else z3.Or(*vs)
    if isinstance(node, ast.UnaryOp) and isinstance(node.op, ast.Not): return z3.Not(to_z3(node.operand, env))
    if isinstance(node, ast.Compare):
        a=to_z3(node.left,env); b=to_z3(node.comparators[0],env); op=type(node.ops[0])
        return {ast.Lt:a<b, ast.LtE:a<=b, ast.Gt:a>b, ast.GtE:a>=b, ast.Eq:a==b, ast.NotEq:a!=b}[op]
    if isinstance(node, ast.Name): return env[node.id]
    if isinstance(node, ast.Constant):
        v=node.value
        if isinstance(v, SymInt): return v.e
        if v is True: return z3.BoolVal(True)
        if v is False: return z3.BoolVal(False)
        return z3.IntVal(v)
    raise NotImplementedError(ast.dump(node))

def check(src, rname):
    out=[]
    def harness(eng):
        global MK
        MK=Markers(); MK.tab={7000:z3.Int("c1"),7001:z3.Int("c2")}
        new=rule(rname)(src)
        out.append(new)
        e1=to_z3(seed(real_parse(src)).body[0].value,{"x":z3.Int("x")})
        e2=to_z3(seed(real_parse(new)).body[0].value,{"x":z3.Int("x")})
        return e1==e2
    eng=Engine(); res=eng.explore(harness)
    return res, eng.paths, sorted(set(out))
for s in ["r = x > 7000 and x >= 7001\n", "r = x < 7000 or x < 7001\n", "r = x == 7000 and x != 7001\n", "r = 7000 < 7001\n"]:
    print(s.strip(), "=>", check(s,"simplify_boolean_expressions"))
