import ast, time, z3, sys, builtins, re
from pysym import *
from pysym import _e
import pyrefact
SymInt.__mul__=lambda s,o: s._ar(o, lambda a,b:a*b)
SymInt.__rmul__=lambda s,o: s._ar(o, lambda a,b:b*a)
SymInt.__mod__=lambda s,o: s._ar(o, lambda a,b:a%b)

SK = '''
TAPE = [9001, 9002, 9003, 9004, 9005, 9006]


def cond():
    return TAPE.pop() > 0


def effect(*args):
    print("effect", *args)
    return TAPE.pop()


def main(n, m):
    result = []
    for i in range(n):
        if cond():
            result.append(i * m)
        else:
            continue
    total = 0
    for v in result:
        total += v
    if total > 10 and total > 5:
        print("big", total)
    else:
        effect(total)
    x = 0
    while x < m:
        x += 1
        if cond():
            break
    print(x, result)
    return total


print(main(8001, 8002))
'''
MARK = re.compile(r"\b([89]0\d\d)\b")
def symbolise(src):
    """replace marker literals by names; returns code and marker list"""
    tree=ast.parse(src); ms=[]
    class T(ast.NodeTransformer):
        def visit_Constant(self,node):
            if type(node.value) is int and 8000<node.value<9999:
                ms.append(node.value); return ast.copy_location(ast.Name(id=f"__m{node.value}",ctx=ast.Load()),node)
            return node
    tree=T().visit(tree); ast.fix_missing_locations(tree)
    return compile(tree,"<p>","exec"), sorted(ms)

def run(code, env, trace):
    def out(*vals): trace.append(tuple(vals))
    g = {"print": out, "__name__": "__main__", **env}
    try:
        exec(code, g); return "ok"
    except Exception as e:
        return type(e).__name__
def same(v1, v2):
    sym=(SymInt,SymBool)
    if isinstance(v1,sym) or isinstance(v2,sym):
        t1 = "bool" if isinstance(v1,(SymBool,bool)) else "int" if isinstance(v1,(SymInt,int)) else type(v1).__name__
        t2 = "bool" if isinstance(v2,(SymBool,bool)) else "int" if isinstance(v2,(SymInt,int)) else type(v2).__name__
        if t1!=t2: return False
        return _e(v1)==_e(v2)
    if type(v1)!=type(v2): return False
    if isinstance(v1,(list,tuple)):
        if len(v1)!=len(v2): return False
        r=z3.BoolVal(True)
        for a,b in zip(v1,v2):
            s=same(a,b)
            if s is False: return False
            if s is not True: r=z3.And(r,s)
        return r
    return v1==v2

def tv(P,Q):
    c1,m1=symbolise(P); c2,m2=symbolise(Q)
    print("markers", m1, m2)
    def harness(eng):
        env={}
        for m in m1:
            v=z3.Int(f"m{m}")
            if m<9000: eng.solver.add(v>=0,v<=3)
            else: eng.solver.add(v>=-1,v<=1)
            env[f"__m{m}"]=SymInt(v)
        t1=[];t2=[]
        r1=run(c1,env,t1)
        if r1!="ok": return True
        r2=run(c2,env,t2)
        if r2!="ok": return False
        return same(t1,t2)
    eng=Engine();t=time.time();res=eng.explore(harness)
    return res,eng.paths,eng.checks,round(time.time()-t,2)
for safe in (True, False):
    t=time.time(); Q=pyrefact.format_code(SK, safe=safe); print("format_code s",round(time.time()-t,2))
    print(Q)
    print(tv(SK,Q))
