import ast, time, z3, sys, builtins, itertools
from pysym import *
import shadow

# --- builtins shims for shadow modules
def sym_isinstance(obj, types):
    if builtins.isinstance(obj, SymInt):
        ts = types if builtins.isinstance(types, tuple) else (types,)
        return any(t in (int, object) for t in ts)
    if builtins.isinstance(obj, SymBool):
        ts = types if builtins.isinstance(types, tuple) else (types,)
        return any(t in (bool, int, object) for t in ts)
    return builtins.isinstance(obj, types)

from pyrefact import core, constants
sm = shadow.shadow("pyrefact.symbolic_math")
sm.isinstance = sym_isinstance

OPS = [ast.Lt, ast.LtE, ast.Gt, ast.GtE, ast.Eq, ast.NotEq]
def z3cmp(op, a, b):
    return {ast.Lt:a<b, ast.LtE:a<=b, ast.Gt:a>b, ast.GtE:a>=b, ast.Eq:a==b, ast.NotEq:a!=b}[op]

def to_z3(node, env):
    if isinstance(node, ast.BoolOp):
        vs=[to_z3(v, env) for v in node.values]
        return z3.And(*vs) if isinstance(node.op, ast.And) else z3.Or(*vs)
    if isinstance(node, ast.UnaryOp) and isinstance(node.op, ast.Not):
        return z3.Not(to_z3(node.operand, env))
    if isinstance(node, ast.Compare):
        assert len(node.ops)==1
        return z3cmp(type(node.ops[0]), to_z3(node.left, env), to_z3(node.comparators[0], env))
    if isinstance(node, ast.Name): return env[node.id]
    if isinstance(node, ast.Constant):
        v=node.value
        if isinstance(v, SymInt): return v.e
        if v is True: return z3.BoolVal(True)
        if v is False: return z3.BoolVal(False)
        return z3.IntVal(v)
    raise NotImplementedError(ast.dump(node))

def make(src, holes):
    tree = ast.parse(src)
    for n in ast.walk(tree):
        if isinstance(n, ast.Constant) and n.value in holes:
            n.value = holes[n.value]
    return tree

total=0; bad=[]
t0=time.time()
stats=[0,0]
for op1, op2, bop in itertools.product(OPS, OPS, ["and","or"]):
    o1={ast.Lt:"<",ast.LtE:"<=",ast.Gt:">",ast.GtE:">=",ast.Eq:"==",ast.NotEq:"!="}[op1]
    o2={ast.Lt:"<",ast.LtE:"<=",ast.Gt:">",ast.GtE:">=",ast.Eq:"==",ast.NotEq:"!="}[op2]
    src=f"r = x {o1} 1001 {bop} x {o2} 1002\n"
    def harness(eng):
        c1=SymInt(z3.Int("c1")); c2=SymInt(z3.Int("c2"))
        tree=make(src,{1001:c1,1002:c2})
        sm.core.parse.cache_clear()
        real_parse=sm.core.parse
        class P:  # stub parse returning our tree
            pass
        sm.core_parse_backup=real_parse
        import types
        corens=types.SimpleNamespace(**{k:getattr(core,k) for k in dir(core)})
        corens.parse=lambda s: tree
        sm.core=corens
        try:
            rewrites=list(sm.simplify_boolean_expressions._fix_func(src))
        finally:
            sm.core=core
        x=z3.Int("x")
        prop=z3.BoolVal(True)
        for old,new in rewrites:
            prop=z3.And(prop, to_z3(old,{"x":x})==to_z3(new,{"x":x}))
        return prop
    eng=Engine()
    res=eng.explore(harness)
    total+=1; stats[0]+=eng.paths; stats[1]+=eng.checks
    if res[0]!="confirmed":
        bad.append((src.strip(),res[1]))
print("skeletons",total,"paths",stats[0],"checks",stats[1],"wall",round(time.time()-t0,2))
for b in bad: print("REFUTED",b)
