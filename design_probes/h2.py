from pyrefact import core
S3 = "ab\n\ncd f\nlast"
LS = [0, 3, 4, 9]

def lineno_col(s: int) -> bool:
    """
    pre: 0 <= s <= len(S3)
    post: _
    """
    m = core.Match(core.Range(s, s), S3, ())
    ln, col = m._lineno_col_offset()
    return 1 <= ln <= 4 and LS[ln - 1] + col == s and col >= 0 and (ln == 4 or s < LS[ln])

def overlaps_sym(a: int, b: int, c: int, d: int) -> bool:
    """
    pre: a <= b and c <= d
    post: _
    """
    r1 = core.Range(a, b); r2 = core.Range(c, d)
    return r1.overlaps(r2) == r2.overlaps(r1) == (max(a, c) < min(b, d))
