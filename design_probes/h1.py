import ast
from pyrefact import core

def lv_floordiv(a: int, b: int) -> int:
    """
    raises: ValueError
    post: _ == a // b
    """
    node = ast.BinOp(left=ast.Constant(value=a), op=ast.FloorDiv(), right=ast.Constant(value=b))
    return core.literal_value(node)

def lv_add(a: int, b: int) -> int:
    """
    raises: ValueError
    post: _ == a + b
    """
    node = ast.BinOp(left=ast.Constant(value=a), op=ast.Add(), right=ast.Constant(value=b))
    return core.literal_value(node)
