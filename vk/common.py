"""Plumbing shared by all checks: obligations over a process pool, replay on unmodified code,
known findings, evidence files, exit codes (DESIGN section 2.5 / 6)."""
from __future__ import annotations

import fnmatch
import json
import multiprocessing as mp
import os
import signal
import subprocess
import sys
import time
import traceback

ROOT = os.path.dirname(os.path.dirname(os.path.abspath(__file__)))
REPO = os.environ.get("VERIF_REPO", "/repo")
PY = sys.executable

EXIT_OK, EXIT_VIOLATION, EXIT_HARNESS = 0, 1, 3


class HardTimeout(BaseException):
    pass


def _alarm(signum, frame):
    raise HardTimeout()


class Obligation:
    """One unit of work: `fn(**params)` run in a worker; returns a dict (Result.as_dict() plus
    whatever the harness adds)."""

    def __init__(self, oid, fn, params=None, hard_timeout=120, sample=None):
        self.oid = oid
        self.fn = fn
        self.params = params or {}
        self.hard_timeout = hard_timeout
        self.sample = sample


_HARNESS = None


def _worker(ob_index):
    ob = _HARNESS._obligations[ob_index]
    t0 = time.perf_counter()
    signal.signal(signal.SIGALRM, _alarm)
    signal.setitimer(signal.ITIMER_REAL, ob.hard_timeout)
    try:
        try:
            out = ob.fn(**ob.params)
            if hasattr(out, "as_dict"):
                out = out.as_dict()
        finally:
            signal.setitimer(signal.ITIMER_REAL, 0)
    except HardTimeout:
        out = {"status": "inconclusive", "inconclusive": ["hard timeout %ss" % ob.hard_timeout], "paths": 0,
               "checks": 0, "solver_s": 0.0, "cexs": []}
    except BaseException as e:  # harness defect, never a violation
        out = {"status": "error", "error": "".join(traceback.format_exception(type(e), e, e.__traceback__))[-3000:],
               "paths": 0, "checks": 0, "solver_s": 0.0, "cexs": []}
    out["oid"] = ob.oid
    out.setdefault("wall_s", round(time.perf_counter() - t0, 3))
    return ob_index, out


def run_obligations(harness, obligations, procs=None):
    """Run obligations over a fork pool (the instrumented package is inherited by the workers)."""
    global _HARNESS
    _HARNESS = harness
    harness._obligations = obligations
    procs = procs or int(os.environ.get("VERIF_PROCS", "0")) or min(16, os.cpu_count() or 1)
    results = [None] * len(obligations)
    if procs <= 1 or len(obligations) <= 1:
        for i in range(len(obligations)):
            _, out = _worker(i)
            results[i] = out
        return results
    ctx = mp.get_context("fork")
    with ctx.Pool(min(procs, len(obligations))) as pool:
        for i, out in pool.imap_unordered(_worker, range(len(obligations)), chunksize=1):
            results[i] = out
    return results


# --------------------------------------------------------------------------------------------------
# known findings


def load_known():
    p = os.path.join(ROOT, "known_findings.json")
    if not os.path.exists(p):
        return {"findings": [], "fixed": []}
    with open(p) as f:
        return json.load(f)


def match_known(known, prop, key):
    for f in known.get("findings", []):
        if f.get("property") != prop or f.get("status", "open") != "open":
            continue
        for pat in f.get("keys", []):
            if key == pat or fnmatch.fnmatchcase(key, pat):
                return f
    return None


# --------------------------------------------------------------------------------------------------
# replay on the unmodified package (fresh interpreter, ordinary values)


def replay_cases(prop, cases, timeout=600):
    """cases: list of JSON-able dicts with at least {'kind': ...}. Returns list of
    {'reproduced': bool, 'detail': str} from a subprocess that imports the *unmodified* package."""
    if not cases:
        return []
    d = os.path.join(ROOT, "replays", prop)
    os.makedirs(d, exist_ok=True)
    batch = os.path.join(d, "_batch_%d.json" % os.getpid())
    with open(batch, "w") as f:
        json.dump(cases, f)
    env = dict(os.environ)
    # the replay imports the package of the tree under check (REPO is /repo unless VERIF_REPO points elsewhere)
    env["PYTHONPATH"] = REPO + os.pathsep + ROOT + os.pathsep + env.get("PYTHONPATH", "")
    env["VERIF_REPLAY"] = "1"
    try:
        p = subprocess.run([PY, "-m", "vk.replay", prop, batch], capture_output=True, text=True, env=env,
                           timeout=timeout, cwd=ROOT)
        lines = [l for l in p.stdout.splitlines() if l.startswith("REPLAY-RESULT ")]
        if len(lines) != 1:
            return [{"reproduced": False, "detail": "replay subprocess failed: rc=%s %s %s" % (
                p.returncode, p.stdout[-500:], p.stderr[-1500:])} for _ in cases]
        return json.loads(lines[0][len("REPLAY-RESULT "):])
    except subprocess.TimeoutExpired:
        return [{"reproduced": False, "detail": "replay timeout"} for _ in cases]
    finally:
        try:
            os.unlink(batch)
        except OSError:
            pass


def write_replay_file(prop, name, case):
    d = os.path.join(ROOT, "replays", prop)
    os.makedirs(d, exist_ok=True)
    safe = "".join(ch if ch.isalnum() or ch in "-_." else "_" for ch in name)[:120]
    path = os.path.join(d, safe + ".json")
    with open(path, "w") as f:
        json.dump(case, f, indent=1, default=str)
    return path


# --------------------------------------------------------------------------------------------------
# evidence


def write_evidence(prop, ev):
    # development runs against another tree (VERIF_REPO) must not overwrite the evidence about /repo
    full = os.path.realpath(REPO) == "/repo" and not os.environ.get("VERIF_ONLY")
    d = os.path.join(ROOT, "evidence") if full else os.path.join(ROOT, "replays", "_evidence_other_tree")
    os.makedirs(d, exist_ok=True)
    path = os.path.join(d, prop + ".json")
    tmp = path + ".tmp%d" % os.getpid()
    with open(tmp, "w") as f:
        json.dump(ev, f, indent=1, default=str, sort_keys=False)
        f.write("\n")
    os.replace(tmp, path)
    return path


def git_head(path):
    try:
        return subprocess.run(["git", "-C", path, "rev-parse", "--short", "HEAD"], capture_output=True,
                              text=True, timeout=10).stdout.strip()
    except Exception:
        return "?"
