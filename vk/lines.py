"""Independent line model: Python's physical lines end at \\n, \\r\\n or \\r (the tokenizer's rule; form feed
and Unicode separators are *not* line breaks) and columns of the ast module are UTF-8 byte offsets."""
from __future__ import annotations

import re

_NL = re.compile(r"\r\n|\n|\r")


def py_lines(source):
    """[(start, end_including_newline, text_without_newline)]"""
    out, pos = [], 0
    for m in _NL.finditer(source):
        out.append((pos, m.end(), source[pos:m.start()]))
        pos = m.end()
    if pos < len(source):
        out.append((pos, len(source), source[pos:]))
    return out


def charno(source, lineno, col_utf8):
    """Character offset of (lineno, UTF-8 byte column) - the stdlib convention."""
    ls = py_lines(source)
    start, _end, text = ls[lineno - 1]
    return start + len(text.encode("utf-8")[:col_utf8].decode("utf-8", errors="ignore"))


def annotated(text):
    """A physical line carries an opt-out comment (documented forms: `# pyrefact: ignore`,
    `# pyrefact: skip_file`, with flexible blanks)."""
    i = text.find("#")
    while i != -1:
        rest = text[i + 1:].replace(" ", "").replace("\t", "")
        if rest.startswith("pyrefact:ignore") or rest.startswith("pyrefact:skip_file"):
            return True
        i = text.find("#", i + 1)
    return False
