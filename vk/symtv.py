"""symtv: symbolic translation validation of (program, refactored program) - DESIGN section 2.3.

Both programs are executed by CPython with proxies bound to the marker literals; unknown conditions,
inputs and call results come from a tape of fresh solver variables; `print` is a recorder. The
assertion per path is
    original terminated normally  =>  refactored terminated normally and trace' == trace
decided by z3 for all literal / input / tape values at once.
"""
from __future__ import annotations

import ast
import builtins
import contextlib
import io
import re

import z3

from . import markers, sym

FUEL_DEFAULT = 400


class OutOfFuel(sym.Outside):
    pass


class _Exit(Exception):
    """Program called exit()/quit(): abnormal termination for our purposes."""


PRELUDE = '''
TAPE = [{tape}]


def cond():
    return TAPE.pop() % 2 == 1


def inp():
    return TAPE.pop() % 7 - 3


def effect(*args):
    print("effect", *args)
    return TAPE.pop() % 3


'''


def prelude(k=8):
    """Skeleton prelude with k tape cells (k bounds the number of dynamic unknown evaluations)."""
    return PRELUDE.format(tape=", ".join(str(markers.TAPE_BASE + i) for i in range(k))).lstrip("\n")


# --------------------------------------------------------------------------------------------------
# builtins visible to executed programs


class _IntMeta(type):
    def __call__(cls, *a, **k):
        if len(a) == 1 and not k:
            x = a[0]
            if isinstance(x, sym.SymInt):
                return x
            if isinstance(x, sym.SymBool):
                return sym.SymInt(z3.If(x.e, z3.IntVal(1), z3.IntVal(0)))
            if isinstance(x, sym.SymReal):
                # truncation toward zero
                e = x.e
                return sym.SymInt(z3.simplify(z3.If(e >= 0, z3.ToInt(e), -z3.ToInt(-e))))
        return int(*a, **k)

    def __instancecheck__(cls, o):
        return sym.sym_isinstance(o, int)

    def __subclasscheck__(cls, c):
        return issubclass(c, int)

    def __getattr__(cls, name):
        return getattr(int, name)

    def __eq__(cls, other):
        return other is int or other is cls

    def __hash__(cls):
        return hash(int)


class sym_int(metaclass=_IntMeta):
    pass


class _FloatMeta(type):
    def __call__(cls, *a, **k):
        if len(a) == 1 and not k:
            x = a[0]
            if isinstance(x, sym.SymReal):
                return x
            if isinstance(x, (sym.SymInt, sym.SymBool)):
                return sym.SymReal(z3.ToReal(sym._num(x)))
        return float(*a, **k)

    def __instancecheck__(cls, o):
        return sym.sym_isinstance(o, float)

    def __subclasscheck__(cls, c):
        return issubclass(c, float)

    def __getattr__(cls, name):
        return getattr(float, name)

    def __eq__(cls, other):
        return other is float or other is cls

    def __hash__(cls):
        return hash(float)


class sym_float(metaclass=_FloatMeta):
    pass


class SymRange:
    """range() whose bounds may be proxies: iteration forks on `start + i*step < stop` (one path per
    length, bounded by fuel) and yields symbolic elements; nothing is concretised."""

    def __init__(self, *args):
        if len(args) == 1:
            start, stop, step = 0, args[0], 1
        elif len(args) == 2:
            (start, stop), step = args, 1
        elif len(args) == 3:
            start, stop, step = args
        else:
            raise TypeError("range expected at most 3 arguments, got %d" % len(args))
        for a in (start, stop, step):
            if not sym.sym_isinstance(a, int):
                raise TypeError("'%s' object cannot be interpreted as an integer" % sym.tag(a))
        # range() stores operator.index() of its arguments: a bool becomes the int 0 / 1
        start, stop, step = (a._as_int() if isinstance(a, sym.SymBool) else int(a) if type(a) is bool else a
                             for a in (start, stop, step))
        if step == 0:
            raise ValueError("range() arg 3 must not be zero")
        self.start, self.stop, self.step = start, stop, step

    def __iter__(self):
        i = 0
        tick = sym.Engine.cur.path_state.get("tick") if sym.Engine.cur else None
        if self.step > 0:
            while self.start + i * self.step < self.stop:
                if tick:
                    tick()
                yield self.start + i * self.step
                i += 1
        else:
            while self.start + i * self.step > self.stop:
                if tick:
                    tick()
                yield self.start + i * self.step
                i += 1

    def __len__(self):
        return sum(1 for _ in self)

    def __bool__(self):
        for _ in self:
            return True
        return False

    def __contains__(self, x):
        if not sym.sym_isinstance(x, int):
            return False
        if self.step > 0:
            ok = (x >= self.start) & (x < self.stop)
        else:
            ok = (x <= self.start) & (x > self.stop)
        if not ok:
            return False
        return (x - self.start) % self.step == 0

    def __getitem__(self, i):
        return list(self)[i]

    def __reversed__(self):
        return reversed(list(self))

    def __eq__(self, other):
        if isinstance(other, (SymRange, range)):
            return list(self) == list(other)
        return NotImplemented

    def __hash__(self):
        return 11

    def __repr__(self):
        if sym.sym_isinstance(self.step, int) and not sym.is_sym(self.step) and self.step == 1:
            return "range(%r, %r)" % (self.start, self.stop)
        return "range(%r, %r, %r)" % (self.start, self.stop, self.step)

    def count(self, x):
        return 1 if x in self else 0

    def index(self, x):
        return list(self).index(x)


class _RangeMeta(type):
    def __call__(cls, *a):
        if any(sym.is_sym(x) for x in a):
            return SymRange(*a)
        return range(*a)

    def __instancecheck__(cls, o):
        return isinstance(o, (range, SymRange))

    def __eq__(cls, other):
        return other is range or other is cls

    def __hash__(cls):
        return hash(range)


class sym_range(metaclass=_RangeMeta):
    pass


vk_is = sym.sym_is


def _stub_abort(name):
    def f(*a, **k):
        raise _Exit(name)

    f.__name__ = name
    return f


def _snapshot(v):
    if isinstance(v, list):
        return [_snapshot(x) for x in v]
    if isinstance(v, tuple):
        return tuple(_snapshot(x) for x in v)
    if isinstance(v, dict):
        return {(_snapshot(k)): _snapshot(x) for k, x in v.items()}
    if isinstance(v, (set, frozenset)):
        return type(v)(v)
    if isinstance(v, SymRange):
        return ("<range>", v.start, v.stop, v.step)
    if isinstance(v, (range, map, filter, zip, enumerate)) or hasattr(v, "__next__"):
        if isinstance(v, range):
            return ("<range>", v.start, v.stop, v.step)
        return "<object>"  # prints with its address: not deterministic output, compared as opaque
    if type(v).__repr__ is object.__repr__ and not isinstance(v, type):
        return "<object>"
    return v


_MARKER_TEXT = re.compile(r"^-?(7\d\d\d|9\d{6})$")


def _norm_top(v):
    """Top-level print argument as it appears on stdout: an int and its decimal text coincide."""
    if isinstance(v, sym.SymInt):
        return ("int-text", v)
    if isinstance(v, bool):
        return v
    if isinstance(v, int):
        return ("int-text", v)
    if isinstance(v, str) and sym.Engine.cur is not None:
        m = _MARKER_TEXT.match(v)
        t = sym.Engine.cur.path_state.get("markers")
        if m and t is not None and int(m.group(1)) in t.tab:
            e = t.tab[int(m.group(1))]
            return ("int-text", sym.SymInt(-e if v.startswith("-") else e))
        if re.fullmatch(r"-?\d+", v):
            return ("int-text", int(v))
    return _snapshot(v)


class Recorder:
    def __init__(self):
        self.trace = []

    def print(self, *args, **kwargs):
        kwargs.pop("file", None)
        kwargs.pop("flush", None)
        entry = tuple(_norm_top(a) for a in args)
        if kwargs:
            entry = entry + (("kw", tuple(sorted((k, _snapshot(v)) for k, v in kwargs.items()))),)
        self.trace.append(entry)


def make_builtins(rec, fuel):
    b = dict(vars(builtins))
    b["print"] = rec.print
    b["isinstance"] = sym.sym_isinstance
    b["type"] = sym.sym_type
    b["int"] = sym_int
    b["float"] = sym_float
    b["range"] = sym_range
    b["__vk_is__"] = vk_is
    for name in ("exit", "quit", "input", "open", "breakpoint", "help"):
        b[name] = _stub_abort(name)
    state = {"fuel": fuel}

    def tick():
        state["fuel"] -= 1
        if state["fuel"] < 0:
            raise OutOfFuel()

    b["__vk_tick__"] = tick
    if sym.Engine.cur is not None:
        sym.Engine.cur.path_state["tick"] = tick
    return b


class _Instrument(ast.NodeTransformer):
    """Execution-time only (never shown to pyrefact): markers -> names, fuel ticks."""

    def __init__(self, marker_set):
        self.marker_set = marker_set
        self.used = set()

    def visit_Constant(self, node):
        if type(node.value) is int and node.value in self.marker_set:
            self.used.add(node.value)
            return ast.copy_location(ast.Name(id="vkm_%d" % node.value, ctx=ast.Load()), node)
        return node

    def _tick(self, node):
        return ast.copy_location(ast.Expr(ast.Call(ast.Name("__vk_tick__", ast.Load()), [], [])), node)

    def _body(self, node):
        self.generic_visit(node)
        node.body = [self._tick(node)] + node.body
        return node

    visit_For = visit_While = visit_FunctionDef = visit_AsyncFunctionDef = _body

    def visit_Lambda(self, node):
        self.generic_visit(node)
        return node

    def visit_Compare(self, node):
        self.generic_visit(node)
        if len(node.ops) == 1 and isinstance(node.ops[0], (ast.Is, ast.IsNot)):
            call = ast.Call(ast.Name("__vk_is__", ast.Load()), [node.left, node.comparators[0]],
                            [ast.keyword("negate", ast.Constant(isinstance(node.ops[0], ast.IsNot)))])
            return ast.copy_location(call, node)
        return node


def compile_expr(expr):
    """An expression compiled with the identity-test rewriting only."""
    tree = ast.parse(expr, mode="eval")
    ins = _Instrument(())
    tree = ins.visit(tree)
    ast.fix_missing_locations(tree)
    return compile(tree, "<expr>", "eval", dont_inherit=True)


def compile_program(text, marker_set, filename="<program>"):
    tree = ast.parse(text)
    ins = _Instrument(marker_set)
    tree = ins.visit(tree)
    ast.fix_missing_locations(tree)
    return compile(tree, filename, "exec", dont_inherit=True), ins.used


def run_program(text, *, fuel=FUEL_DEFAULT, extra_globals=None, name="__main__"):
    """Execute program text under the current engine path. Returns (status, trace, exception)
    with status in {'ok', 'raised', 'exit'}; OutOfFuel and engine signals propagate."""
    eng = sym.Engine.cur
    tab = eng.path_state.get("markers") if eng is not None else None
    marker_tab = tab.tab if tab is not None else {}
    code, used = compile_program(text, marker_tab)
    rec = Recorder()
    g = {"__builtins__": make_builtins(rec, fuel), "__name__": name}
    for m in used:
        g["vkm_%d" % m] = sym.SymInt(marker_tab[m])
    if extra_globals:
        g.update(extra_globals)
    saved_hash = sym.FAITHFUL_HASH
    sym.FAITHFUL_HASH = True
    try:
        with contextlib.redirect_stdout(io.StringIO()):
            exec(code, g)
        return "ok", rec.trace, None
    except _Exit as e:
        return "exit", rec.trace, e
    except RecursionError as e:
        raise OutOfFuel() from e
    except Exception as e:  # noqa: BLE001 - the program's own exception
        return "raised", rec.trace, e
    finally:
        sym.FAITHFUL_HASH = saved_hash


def equivalent(eng, before, after, *, fuel=FUEL_DEFAULT, info=None, compare_exceptions=False):
    """Run both programs on the current path and claim the translation-validation assertion.
    Returns 'outside' when the original does not terminate normally on this path (outside the
    property's class), else the claim's verdict."""
    s1, t1, e1 = run_program(before, fuel=fuel)
    if s1 != "ok":
        if not compare_exceptions:
            return "outside"
    base = dict(info or {})
    try:
        s2, t2, e2 = run_program(after, fuel=fuel)
    except OutOfFuel:
        # the original terminated within the fuel, the refactored program did not (3x margin re-checked below)
        try:
            s2, t2, e2 = run_program(after, fuel=3 * fuel + 50)
        except OutOfFuel:
            base.update({"failure": "timeout"})
            eng.claim(False, info=base)
            return False
    if s1 == "ok" and s2 != "ok":
        base.update({"failure": "raises:%s" % type(e2).__name__, "exception": repr(e2)[:200]})
        eng.claim(False, info=base)
        return False
    if s1 != "ok":
        if s2 == "ok" or type(e1) is not type(e2):
            base.update({"failure": "exception-changed", "exception": "%r -> %r" % (e1, e2)})
            eng.claim(False, info=base)
            return False
    try:
        prop = sym.same(t1, t2)
    except sym.Unsupported:
        raise
    base.update({"failure": "trace"})

    def mk(model, base=base, t1=t1, t2=t2):
        d = dict(base)
        d["trace_before"] = repr(sym.concretize(t1, model))[:300]
        d["trace_after"] = repr(sym.concretize(t2, model))[:300]
        return d

    return eng.claim(prop, info=mk)


# --------------------------------------------------------------------------------------------------
# concrete side (replay on the unmodified package, ordinary Python values)


def run_concrete(text, timeout_s=10):
    """Execute a closed concrete program with the real interpreter; returns (status, stdout)."""
    import signal

    class _T(BaseException):
        pass

    def on_alarm(*a):
        raise _T()

    out = io.StringIO()
    b = dict(vars(builtins))
    for name in ("exit", "quit", "input", "open", "breakpoint", "help"):
        b[name] = _stub_abort(name)
    g = {"__builtins__": b, "__name__": "__main__"}
    old = signal.signal(signal.SIGALRM, on_alarm)
    signal.setitimer(signal.ITIMER_REAL, timeout_s)
    try:
        with contextlib.redirect_stdout(out):
            exec(compile(text, "<replay>", "exec", dont_inherit=True), g)
        return "ok", out.getvalue()
    except _T:
        return "timeout", out.getvalue()
    except RecursionError:
        return "timeout", out.getvalue()
    except _Exit:
        return "exit", out.getvalue()
    except Exception as e:  # noqa: BLE001
        return "raised:%s" % type(e).__name__, out.getvalue()
    finally:
        signal.setitimer(signal.ITIMER_REAL, 0)
        signal.signal(signal.SIGALRM, old)


def concrete_program(text, model):
    """Substitute the model's values for the seeded markers of a skeleton."""
    values = {}
    for name, v in model.items():
        if name.startswith("c") and name[1:].isdigit():
            values[int(name[1:])] = v
        elif name.startswith("tape") and name[4:].isdigit():
            values[int(name[4:])] = v
    return markers.substitute(text, values)


def replay_pair(before_text, transform, model):
    """Concrete replay: substitute the model, run the real transformation, execute both programs."""
    P = concrete_program(before_text, model)
    try:
        Q = transform(P)
    except Exception as e:  # noqa: BLE001
        return {"reproduced": False, "detail": "transformation raised %r on the concrete program" % (e,),
                "crash": True, "program": P}
    s1, o1 = run_concrete(P)
    s2, o2 = run_concrete(Q)
    # objects printed with their address are not deterministic output: compared as opaque
    opaque = re.compile(r"<[^<>]* at 0x[0-9a-f]+>")
    bad = s1 == "ok" and (s2 != "ok" or opaque.sub("<object>", o1) != opaque.sub("<object>", o2))
    return {"reproduced": bad, "status": (s1, s2),
            "detail": "program:\n%s\n--- refactored:\n%s\n--- before: %s %r\n--- after:  %s %r" % (
                P, Q, s1, o1[-300:], s2, o2[-300:])}


# pyrefact's own constant evaluator calls builtins by name: give it the symbolic range as well
from . import instrument as _instrument  # noqa: E402

_instrument.SHADOW_BUILTINS.range = sym_range
