"""Instrumented import of pyrefact from /repo's current working tree (DESIGN section 2.1).

A `sys.meta_path` finder compiles every `pyrefact*.py` from source after a mechanical pre-pass:
  1. `logger.*(...)` expression statements -> `pass`
  2. module globals `isinstance`, `type` -> proxy-aware versions
  3. module global `ast` -> namespace whose `parse` seeds marker literals and whose
     `literal_eval` is compiled from the stdlib source with the same two globals
  4. module global `builtins` -> namespace in which effectful builtins are recording stubs
  5. module global `sympy` (symbolic_math only) -> wrapper that raises MarkerEscape when handed
     text that contains a marker
No line of program logic is rewritten: a mutant in /repo is a mutant in the instrumented package.
"""
from __future__ import annotations

import ast
import builtins
import hashlib
import importlib.abc
import importlib.machinery
import inspect
import os
import sys
import types

from . import markers, sym

REPO = os.environ.get("VERIF_REPO", "/repo")

CUTS = [
    "logger.*(...) expression statements replaced by pass",
    "module globals isinstance/type bound to proxy-aware versions",
    "module global ast: parse seeds marker literals; literal_eval recompiled with proxy-aware isinstance",
    "module global builtins: effectful builtins (print/input/open/exec/eval/exit/...) are recording stubs",
    "module global sympy: raises MarkerEscape on marker-bearing text (falls back to concrete-literal mode)",
    "functools.lru_cache caches of the package cleared at the start of every path",
    "constants.COMPARISON_OPERATORS[Is/IsNot] (operator.is_/is_not) replaced by proxy-aware identity "
    "(bool/None singletons modelled; identity between numbers is Unsupported)",
    "constants.COMPARISON_OPERATORS[In/NotIn] decide membership of / in hash-based containers holding proxies by "
    "equality with every element (a proxy's hash is a constant in rule code)",
]


class MarkerEscape(sym.EngineSignal):
    """Marker-bearing text reached a component that would read markers as plain numbers."""


class EffectRecorded(Exception):
    pass


EFFECT_LOG = []  # (name, args) of effectful builtins invoked *by pyrefact itself*

EFFECTFUL = (
    "print input open exec eval compile exit quit breakpoint help __import__ setattr delattr "
    "globals locals vars dir id copyright credits license memoryview"
).split()


def _make_builtins_ns():
    ns = types.ModuleType("builtins")
    ns.__dict__.update(vars(builtins))

    def stub(name):
        def effect_stub(*a, **k):
            EFFECT_LOG.append(name)
            raise ValueError("effectful builtin %s invoked during refactoring" % name)

        effect_stub.__name__ = name
        return effect_stub

    for name in EFFECTFUL:
        if name in ("vars", "dir", "id", "copyright", "credits", "license", "memoryview"):
            continue
        setattr(ns, name, stub(name))
    ns.isinstance = sym.sym_isinstance
    ns.type = sym.sym_type
    return ns


def _make_ast_ns():
    ns = dict(vars(ast))
    ns["isinstance"] = sym.sym_isinstance
    ns["type"] = sym.sym_type
    exec(compile(inspect.getsource(ast.literal_eval), "<ast.literal_eval>", "exec"), ns)
    shadow = types.ModuleType("ast")
    shadow.__dict__.update(vars(ast))

    def parse(*a, **k):
        return markers.seed_tree(ast.parse(*a, **k))

    shadow.parse = parse
    shadow.literal_eval = ns["literal_eval"]
    shadow.__real__ = ast
    return shadow


SHADOW_AST = _make_ast_ns()
SHADOW_BUILTINS = _make_builtins_ns()


class _StripLog(ast.NodeTransformer):
    def visit_Expr(self, node):
        v = node.value
        if (
            isinstance(v, ast.Call)
            and isinstance(v.func, ast.Attribute)
            and isinstance(v.func.value, ast.Name)
            and v.func.value.id == "logger"
        ):
            return ast.copy_location(ast.Pass(), node)
        return node


SOURCE_HASHES = {}
EXTRA_GLOBALS = {}  # module name -> dict, set by harnesses before import


class _SympyGuard:
    """Thin wrapper over the sympy module: text with markers must not be read as numbers."""

    def __init__(self, real):
        self._real = real

    def _check(self, a):
        if isinstance(a, str) and sym.Engine.cur is not None:
            t = sym.Engine.cur.path_state.get("markers")
            if t is not None and t.tab and any(int(m) in t.tab for m in markers.MARKER_RE.findall(a)):
                raise MarkerEscape("sympy handed marker-bearing text: %r" % a[:60])

    def simplify(self, a, *r, **k):
        self._check(a)
        return self._real.simplify(a, *r, **k)

    def __getattr__(self, name):
        return getattr(self._real, name)


class Loader(importlib.machinery.SourceFileLoader):
    def source_to_code(self, data, path, *, _optimize=-1):
        tree = _StripLog().visit(ast.parse(data))
        ast.fix_missing_locations(tree)
        return compile(tree, path, "exec", dont_inherit=True)

    def get_code(self, fullname):
        fn = self.get_filename(fullname)
        data = self.get_data(fn)
        SOURCE_HASHES[fullname] = hashlib.sha256(data).hexdigest()[:16]
        return self.source_to_code(data, fn)

    def exec_module(self, module):
        d = module.__dict__
        d["isinstance"] = sym.sym_isinstance
        d["type"] = sym.sym_type
        d.update(EXTRA_GLOBALS.get(module.__name__, {}))
        super().exec_module(module)
        if d.get("ast") is ast:
            d["ast"] = SHADOW_AST
        if d.get("builtins") is builtins:
            d["builtins"] = SHADOW_BUILTINS
        if module.__name__ == "pyrefact.constants" and "COMPARISON_OPERATORS" in d:
            ops = dict(d["COMPARISON_OPERATORS"])
            ops[ast.Is] = sym.sym_is
            ops[ast.IsNot] = sym.sym_is_not
            # only where a proxy meets a hash-based container; everything else goes through the package's own
            # entries, so a change to them stays visible
            def _wrap(orig, symbolic):
                def op(x, y):
                    if isinstance(y, (set, frozenset, dict)) and (sym.is_sym(x) or any(sym.is_sym(k) for k in y)):
                        return symbolic(x, y)
                    return orig(x, y)

                return op

            ops[ast.In] = _wrap(ops[ast.In], sym.sym_contains)
            ops[ast.NotIn] = _wrap(ops[ast.NotIn], sym.sym_not_contains)
            d["COMPARISON_OPERATORS"] = types.MappingProxyType(ops)
        if module.__name__ == "pyrefact.symbolic_math":
            real = d.get("sympy")
            if isinstance(real, types.ModuleType):
                d["sympy"] = _SympyGuard(real)
                real_parse = d.get("_parse_sympy_expr")
                guard = d["sympy"]

                def _parse_sympy_expr(expression, _real=real_parse):
                    guard._check(expression)
                    return _real(expression)

                d["_parse_sympy_expr"] = _parse_sympy_expr


class Finder(importlib.abc.MetaPathFinder):
    def find_spec(self, fullname, path, target=None):
        if fullname == "pyrefact" or fullname.startswith("pyrefact."):
            if fullname == "pyrefact":
                path = [REPO]
            spec = importlib.machinery.PathFinder.find_spec(fullname, path)
            if spec and spec.origin and spec.origin.endswith(".py"):
                spec.loader = Loader(fullname, spec.origin)
            return spec
        return None


_installed = False


def install():
    """Make the instrumented package the only pyrefact of this process."""
    global _installed
    if _installed:
        return
    assert "pyrefact" not in sys.modules, "pyrefact imported before instrumentation"
    sys.meta_path.insert(0, Finder())
    _installed = True


def installed():
    return _installed


def reset_caches(_eng=None):
    """Clear every lru_cache of the package (a marker may denote another term on another path)."""
    for name, m in list(sys.modules.items()):
        if name == "pyrefact" or name.startswith("pyrefact."):
            for v in list(vars(m).values()):
                cc = getattr(v, "cache_clear", None)
                if cc is not None and callable(cc):
                    try:
                        cc()
                    except Exception:
                        pass
    del EFFECT_LOG[:]


def encoded(*names):
    """[module:function@hash] strings for evidence."""
    out = []
    for n in names:
        mod = n.split(":")[0]
        out.append("%s@%s" % (n, SOURCE_HASHES.get(mod, "?")))
    return out
