"""Shared machinery for obligations of the form 'transformation T on skeleton P' (symbolic-literal
run of the real rule / pipeline, then symbolic translation validation or another oracle)."""
from __future__ import annotations

import importlib
import inspect

from . import markers


def get_transform(name):
    """Transformation by name, from whichever pyrefact is imported in this process.

    'rule:fixes.remove_dead_ifs'            one rule (str -> str)
    'format_code:safe=1,keep_imports=0'     the whole pipeline with options
    'twice:<name>'                          T applied twice
    """
    if name.startswith("twice:"):
        t = get_transform(name[len("twice:"):])
        return lambda s: t(t(s))
    if name.startswith("rule+imports:"):
        # a rule may introduce a name (collections.defaultdict, functools.reduce ...) whose import the pipeline
        # adds afterwards: the isolated rule is composed with the pipeline's own import completion
        t = get_transform("rule:" + name[len("rule+imports:"):])
        from pyrefact import fixes

        return lambda s: fixes.add_missing_imports(t(s))
    if name.startswith("rule:"):
        modname, fn = name[len("rule:"):].rsplit(".", 1)
        mod = importlib.import_module("pyrefact." + modname)
        f = getattr(mod, fn)
        target = getattr(f, "_fix_func", f)
        try:
            params = inspect.signature(target).parameters
        except (TypeError, ValueError):
            params = {}
        if "preserve" in params:
            return lambda s: f(s, preserve=frozenset())
        return f
    if name.startswith("format_code"):
        import pyrefact

        opts = {}
        if ":" in name:
            for kv in name.split(":", 1)[1].split(","):
                if not kv:
                    continue
                k, v = kv.split("=")
                if k in ("safe", "keep_imports"):
                    opts[k] = bool(int(v))
                elif k == "max_line_length":
                    opts[k] = int(v)
                elif k == "preserve":
                    opts[k] = frozenset(x for x in v.split("+") if x)
        return lambda s: pyrefact.format_code(s, **opts)
    raise KeyError(name)


def all_rules():
    """Every rule pyrefact ships, discovered from main.py's source at run time:
    [(transform name, in_multi_run)]."""
    import ast
    import os

    from .common import REPO

    src = open(os.path.join(REPO, "pyrefact", "main.py")).read()
    tree = ast.parse(src)
    out = []
    seen = set()
    for fn in ast.walk(tree):
        if isinstance(fn, ast.FunctionDef) and fn.name in ("_multi_run_fixes", "format_code"):
            for node in ast.walk(fn):
                if isinstance(node, ast.Attribute) and isinstance(node.value, ast.Name) and node.value.id in (
                        "fixes", "abstractions", "object_oriented", "performance", "performance_numpy",
                        "performance_pandas", "symbolic_math", "tracing"):
                    name = "rule:%s.%s" % (node.value.id, node.attr)
                    if name not in seen:
                        seen.add(name)
                        out.append((name, fn.name == "_multi_run_fixes"))
    return out


class Skeleton:
    """A closed program with marker literals.

    lits: {marker: (lo, hi)}   rule-visible / input literals, lo <= value < hi (lo >= 0)
    tape: number of tape cells used by the prelude (markers TAPE_BASE..)
    """

    def __init__(self, sid, text, lits=None, tape=0, fuel=400, meta=None):
        self.sid = sid
        self.text = text
        self.lits = dict(lits or {})
        self.tape = tape
        self.fuel = fuel
        self.meta = meta or {}
        for m in markers.markers_in(text):
            if m < markers.TAPE_BASE and m not in self.lits:
                self.lits[m] = (0, markers.RULE_MAX)

    def declare(self, eng):
        for m, (lo, hi) in sorted(self.lits.items()):
            markers.declare(eng, [m], lo=lo, hi=hi)
        if self.tape:
            markers.declare_tape(eng, [markers.TAPE_BASE + i for i in range(self.tape)])

    def to_json(self):
        return {"sid": self.sid, "text": self.text, "lits": {str(k): list(v) for k, v in self.lits.items()},
                "tape": self.tape, "fuel": self.fuel}

    @staticmethod
    def from_json(d):
        return Skeleton(d["sid"], d["text"], {int(k): tuple(v) for k, v in d["lits"].items()}, d["tape"],
                        d.get("fuel", 400))


def ob_tv(skeleton, transform, budget_s=60.0, max_paths=4000, require_fire=False, max_cex=4):
    """Symbolic-literal run of `transform` on `skeleton`, then symtv on every path."""
    from . import instrument, sym, symtv

    sk = Skeleton.from_json(skeleton) if isinstance(skeleton, dict) else skeleton
    T = get_transform(transform)
    stats = {"fired": 0, "outside": 0, "crash": 0, "escape": 0, "outputs": set()}

    def harness(eng):
        sk.declare(eng)
        try:
            out = T(sk.text)
        except instrument.MarkerEscape:
            stats["escape"] += 1
            raise sym.Unsupported("marker escaped to sympy (concrete-literal fallback needed)")
        except Exception as e:  # noqa: BLE001 - a crash of the tool is C04's business
            stats["crash"] += 1
            stats.setdefault("crash_sample", repr(e)[:200])
            return
        if out != sk.text:
            stats["fired"] += 1
            stats["outputs"].add(out)
        elif require_fire:
            return
        r = symtv.equivalent(eng, sk.text, out, fuel=sk.fuel,
                             info={"after": out, "transform": transform, "sid": sk.sid})
        if r == "outside":
            stats["outside"] += 1

    eng = sym.Engine(budget_s=budget_s, max_paths=max_paths, max_cex=max_cex)
    eng.path_hooks.append(instrument.reset_caches)
    res = eng.explore(harness)
    d = res.as_dict()
    outs = sorted(stats.pop("outputs"))
    d["notes"] = dict(stats, distinct_outputs=len(outs), output_sample=outs[:2])
    d["fired"] = stats["fired"]
    if not stats["fired"] or stats["outside"] == res.paths:
        d["allow_vacuous"] = True  # counted as trivial, not as a pass
        d["trivial"] = True
    return d


def tv_case(ob, r, cex, prop_key_prefix=""):
    info = cex.get("info") or {}
    sk = ob.params["skeleton"]
    failure = info.get("failure", "?")
    return {"kind": "tv", "skeleton": sk, "transform": ob.params["transform"], "model": cex["model"],
            "failure": failure, "after_symbolic": info.get("after"),
            "key": "%s|%s" % (ob.oid, failure)}


def tv_replay(case):
    from . import symtv

    sk = Skeleton.from_json(case["skeleton"])
    T = get_transform(case["transform"])
    r = symtv.replay_pair(sk.text, T, case["model"])
    if r["reproduced"]:
        s2 = r["status"][1]
        failure = "trace" if s2 == "ok" else ("timeout" if s2 == "timeout" else "raises:%s" % s2.split(":", 1)[-1])
        r["key"] = "%s|%s" % (case["oid"], failure)
    return r
