"""Shared machinery for obligations of the form 'transformation T on skeleton P' (symbolic-literal
run of the real rule / pipeline, then symbolic translation validation or another oracle)."""
from __future__ import annotations

import importlib
import inspect

from . import markers


def get_transform(name):
    """Transformation by name, from whichever pyrefact is imported in this process.

    'rule:fixes.remove_dead_ifs'            one rule (str -> str)
    'format_code:safe=1,keep_imports=0'     the whole pipeline with options
    'twice:<name>'                          T applied twice
    """
    if name.startswith("twice:"):
        t = get_transform(name[len("twice:"):])
        return lambda s: t(t(s))
    if name.startswith("rule+imports:"):
        # a rule may introduce a name (collections.defaultdict, functools.reduce ...) whose import the pipeline
        # adds afterwards: the isolated rule is composed with the pipeline's own import completion
        t = get_transform("rule:" + name[len("rule+imports:"):])
        from pyrefact import fixes

        return lambda s: fixes.add_missing_imports(t(s))
    if name.startswith("rule:"):
        modname, fn = name[len("rule:"):].rsplit(".", 1)
        mod = importlib.import_module("pyrefact." + modname)
        f = getattr(mod, fn)
        target = getattr(f, "_fix_func", f)
        try:
            params = inspect.signature(target).parameters
        except (TypeError, ValueError):
            params = {}
        if "preserve" in params:
            return lambda s: f(s, preserve=frozenset())
        if "root_is_static" in params:
            return lambda s: f(s, root_is_static=True)
        return f
    if name.startswith("format_code"):
        import pyrefact

        opts = {}
        if ":" in name:
            for kv in name.split(":", 1)[1].split(","):
                if not kv:
                    continue
                k, v = kv.split("=")
                if k in ("safe", "keep_imports"):
                    opts[k] = bool(int(v))
                elif k == "max_line_length":
                    opts[k] = int(v)
                elif k == "preserve":
                    opts[k] = frozenset(x for x in v.split("+") if x)
        return lambda s: pyrefact.format_code(s, **opts)
    raise KeyError(name)


def all_rules():
    """Every rule pyrefact ships, discovered from main.py's source at run time:
    [(transform name, in_multi_run)]."""
    import ast
    import os

    from .common import REPO

    src = open(os.path.join(REPO, "pyrefact", "main.py")).read()
    tree = ast.parse(src)
    out = []
    seen = set()
    for fn in ast.walk(tree):
        if isinstance(fn, ast.FunctionDef) and fn.name in ("_multi_run_fixes", "format_code"):
            for node in ast.walk(fn):
                if isinstance(node, ast.Attribute) and isinstance(node.value, ast.Name) and node.value.id in (
                        "fixes", "abstractions", "object_oriented", "performance", "performance_numpy",
                        "performance_pandas", "symbolic_math", "tracing"):
                    name = "rule:%s.%s" % (node.value.id, node.attr)
                    if name not in seen:
                        seen.add(name)
                        out.append((name, fn.name == "_multi_run_fixes"))
    return out


class Skeleton:
    """A closed program with marker literals.

    lits: {marker: (lo, hi)}   rule-visible / input literals, lo <= value < hi (lo >= 0)
    tape: number of tape cells used by the prelude (markers TAPE_BASE..)
    """

    def __init__(self, sid, text, lits=None, tape=0, fuel=400, meta=None):
        self.sid = sid
        self.text = text
        self.lits = dict(lits or {})
        self.tape = tape
        self.fuel = fuel
        self.meta = meta or {}
        for m in markers.markers_in(text):
            if m < markers.TAPE_BASE and m not in self.lits:
                self.lits[m] = (0, markers.RULE_MAX)

    def declare(self, eng):
        for m, (lo, hi) in sorted(self.lits.items()):
            markers.declare(eng, [m], lo=lo, hi=hi)
        if self.tape:
            markers.declare_tape(eng, [markers.TAPE_BASE + i for i in range(self.tape)])

    def to_json(self):
        return {"sid": self.sid, "text": self.text, "lits": {str(k): list(v) for k, v in self.lits.items()},
                "tape": self.tape, "fuel": self.fuel}

    @staticmethod
    def from_json(d):
        return Skeleton(d["sid"], d["text"], {int(k): tuple(v) for k, v in d["lits"].items()}, d["tape"],
                        d.get("fuel", 400))


def ob_tv(skeleton, transform, budget_s=60.0, max_paths=4000, require_fire=False, max_cex=4):
    """Symbolic-literal run of `transform` on `skeleton`, then symtv on every path."""
    from . import instrument, sym, symtv

    sk = Skeleton.from_json(skeleton) if isinstance(skeleton, dict) else skeleton
    T = get_transform(transform)
    stats = {"fired": 0, "outside": 0, "crash": 0, "escape": 0, "outputs": set()}

    def harness(eng):
        sk.declare(eng)
        try:
            out = T(sk.text)
        except instrument.MarkerEscape:
            stats["escape"] += 1
            raise sym.Unsupported("marker escaped to sympy (concrete-literal fallback needed)")
        except Exception as e:  # noqa: BLE001 - a crash of the tool is C04's business
            stats["crash"] += 1
            stats.setdefault("crash_sample", repr(e)[:200])
            return
        if out != sk.text:
            stats["fired"] += 1
            stats["outputs"].add(out)
        elif require_fire:
            return
        r = symtv.equivalent(eng, sk.text, out, fuel=sk.fuel,
                             info={"after": out, "transform": transform, "sid": sk.sid})
        if r == "outside":
            stats["outside"] += 1

    eng = sym.Engine(budget_s=budget_s, max_paths=max_paths, max_cex=max_cex)
    eng.path_hooks.append(instrument.reset_caches)
    res = eng.explore(harness)
    d = res.as_dict()
    outs = sorted(stats.pop("outputs"))
    d["notes"] = dict(stats, distinct_outputs=len(outs), output_sample=outs[:2])
    d["fired"] = stats["fired"]
    if not stats["fired"] or stats["outside"] == res.paths or res.claims == 0:
        # no claim: on every path the rule was silent, the original left the program class (raises / out of fuel), or the
        # tool crashed (C04's business; counted in notes)
        d["allow_vacuous"] = True  # counted as trivial (original never terminates normally / rule silent), not as a pass
        d["trivial"] = True
    return d


def tv_case(ob, r, cex, prop_key_prefix=""):
    info = cex.get("info") or {}
    sk = ob.params["skeleton"]
    failure = info.get("failure", "?")
    return {"kind": "tv", "skeleton": sk, "transform": ob.params["transform"], "model": cex["model"],
            "failure": failure, "after_symbolic": info.get("after"),
            "key": "%s|%s" % (ob.oid, failure)}


def tv_replay(case):
    from . import symtv

    sk = Skeleton.from_json(case["skeleton"])
    T = get_transform(case["transform"])
    r = symtv.replay_pair(sk.text, T, case["model"])
    if r["reproduced"]:
        s2 = r["status"][1]
        failure = "trace" if s2 == "ok" else ("timeout" if s2 == "timeout" else "raises:%s" % s2.split(":", 1)[-1])
        r["key"] = "%s|%s" % (case["oid"], failure)
    return r


# ---------------------------------------------------------------------------------------------------
# pool obligations other than behaviour preservation (symbolic-literal run of T, then a text-level oracle)


HISTORY_FIXED = (
    "def hist(node, other, k):\n"
    "    if node.size > 1 and (node.size > 1 or other.size < 2):\n        return 1\n"
    "    if other.left is None or (other.left is None and node.right is not None):\n        return 2\n"
    "    if not (k[0] == 1 and k[1] == 2) or (k[2] != 3 and k[0] == 1):\n        return 3\n"
    "    if (node.a < 1 and node.b < 2 and node.c < 3) or (node.a < 1 and node.b < 2) or node.d > 4 or node.e > 5 or len(k) > 6:\n        return 4\n"
    "    return 0\n"
)


def history_texts(text):
    """Earlier inputs for the history-independence obligation: relatives of `text` itself (the operands of every
    and / or in reverse order; every comparison mirrored) and a fixed program with a dozen distinct non-name
    boolean operands. A process-wide table keyed by pieces of earlier inputs shows up only when a later input
    shares pieces with them."""
    import ast as _ast

    out = []
    try:
        tree = _ast.parse(text)
    except SyntaxError:
        tree = None
    if tree is not None:
        for how in ("reverse", "rotate"):
            tree = _ast.parse(text)
            changed = False
            for node in _ast.walk(tree):
                if isinstance(node, _ast.BoolOp) and len(node.values) > 1:
                    node.values = node.values[::-1] if how == "reverse" else node.values[1:] + node.values[:1]
                    changed = True
            if changed:
                try:
                    rel = _ast.unparse(tree) + "\n"
                except Exception:  # noqa: BLE001
                    continue
                if rel not in out:
                    out.append(rel)
    out.append(HISTORY_FIXED)
    return out


def fresh_vs_history(transform, text, timeout_s=60):
    """History independence from the other side: the result for `text` in a process that has never seen it must be
    the same whether or not relatives of `text` were formatted first. Both runs happen in forked children of the
    current process (whose own state is left untouched), concretely: markers are ordinary literals there.
    Returns (out_fresh, out_after_history) or None when a child failed."""
    import json as _json
    import os as _os
    import select as _select

    from . import instrument, sym

    def child(history):
        r, w = _os.pipe()
        pid = _os.fork()
        if pid == 0:
            res = None
            try:
                _os.close(r)
                sym.Engine.cur = None
                instrument.reset_caches()
                T = get_transform(transform)
                for h in history:
                    try:
                        T(h)
                    except Exception:  # noqa: BLE001
                        pass
                try:
                    res = T(text)
                except Exception as e:  # noqa: BLE001
                    res = "<<raised %s>>" % type(e).__name__
            except BaseException:  # noqa: BLE001
                res = None
            finally:
                try:
                    _os.write(w, _json.dumps(res).encode())
                except BaseException:  # noqa: BLE001
                    pass
                _os._exit(0)
        _os.close(w)
        chunks = []
        try:
            while True:
                ready, _, _ = _select.select([r], [], [], timeout_s)
                if not ready:
                    try:
                        _os.kill(pid, 9)
                    except OSError:
                        pass
                    break
                b = _os.read(r, 1 << 16)
                if not b:
                    break
                chunks.append(b)
        finally:
            _os.close(r)
            try:
                _os.waitpid(pid, 0)
            except OSError:
                pass
        try:
            return _json.loads(b"".join(chunks).decode())
        except ValueError:
            return None

    a = child([])
    b = child(history_texts(text))
    if a is None or b is None:
        return None
    return a, b


def ob_prop(skeleton, transform, mode, budget_s=60.0, max_paths=400, annotate=None):
    """mode: 'valid' (C03-e: output parses), 'total' (C04-f: nothing escapes), 'pure' (C05: second call and
    warm caches give the same text, caches stay faithful), 'converge' (C09-c: fixed point within 5
    applications, no revisits)."""
    import ast as _ast
    import time as _time

    from . import instrument, sym

    sk = Skeleton.from_json(skeleton) if isinstance(skeleton, dict) else skeleton
    T = get_transform(transform)
    stats = {"changed": 0, "crash": 0, "steps": []}

    def run(text):
        try:
            return T(text)
        except instrument.MarkerEscape:
            raise sym.Unsupported("marker escaped to sympy")

    def harness(eng):
        sk.declare(eng)
        text = sk.text
        if mode == "total":
            t0 = _time.perf_counter()
            try:
                out = run(text)
            except Exception as e:  # noqa: BLE001
                eng.claim(False, info={"what": "raises", "exception": type(e).__name__, "message": str(e)[:200]})
                return
            except SystemExit as e:
                eng.claim(False, info={"what": "raises", "exception": "SystemExit", "message": str(e)[:100]})
                return
            if not isinstance(out, str):
                eng.claim(False, info={"what": "returned %s instead of a string" % type(out).__name__})
                return
            if out != text:
                stats["changed"] += 1
            eng.claim(True)
            return
        if mode == "pure" and not stats.get("forked"):
            stats["forked"] = 1
            fh = fresh_vs_history(transform, text)
            if fh is not None and fh[0] != fh[1]:
                eng.claim(False, info={"what": "result depends on what was formatted before", "fresh": fh[0], "after_history": fh[1]})
                return
        try:
            out = run(text)
        except Exception:  # noqa: BLE001 - C04's business
            stats["crash"] += 1
            return
        if out != text:
            stats["changed"] += 1
        if mode == "valid":
            try:
                _ast.parse(out)
                eng.claim(True)
            except SyntaxError as e:
                eng.claim(False, info={"what": "output does not parse", "error": str(e)[:120], "after": out})
            return
        if mode == "pure":
            from pyrefact import core

            # cache faithfulness: every tree handed out by core.parse on this path still dumps like a fresh parse
            bad = []
            for txt, tree in list(eng.path_state.get("parsed", {}).items()):
                try:
                    fresh = instrument.SHADOW_AST.parse(txt)
                except SyntaxError:
                    continue
                if _ast.dump(tree) != _ast.dump(fresh):
                    bad.append(txt[:80])
            if bad:
                eng.claim(False, info={"what": "cached tree no longer matches its source text", "texts": bad[:2]})
                return
            try:
                out2 = run(text)
                # an interposed history: the same text under another configuration, a pass whose transaction is
                # rolled back (unparsable replacement), another text - then the call under test again
                from pyrefact import processing

                get_transform("format_code:safe=1" if "safe=1" not in transform else "format_code:safe=0")(text)

                def _bad_rule(source):
                    yield core.Range(0, 1), "("

                _bad_rule.__name__ = "bad_rule"
                processing.fix(_bad_rule)(text)
                run("zz = 1\nif zz > 7000:\n    print(zz)\n")
                for earlier in history_texts(text):
                    try:
                        run(earlier)
                    except sym.EngineSignal:
                        raise
                    except Exception:  # noqa: BLE001 - a crash on another input is not this obligation's business
                        pass
                # ... and enough other texts to evict the entry of `text` from the parse cache (maxsize 100), while
                # larger caches (trace_origin, compile_template) still remember it
                for i in range(130):
                    core.parse("pad_%d = %d\n" % (i, i))
                out3 = run(text)
            except Exception:  # noqa: BLE001
                stats["crash"] += 1
                return
            eng.claim(out2 == out and out3 == out,
                      info={"what": "second / third call on warm caches differs", "first": out, "second": out2, "third": out3})
            return
        if mode == "converge":
            seq = [text, out]
            try:
                for _ in range(5):
                    seq.append(run(seq[-1]))
            except Exception:  # noqa: BLE001
                stats["crash"] += 1
                return
            fp = next((i for i in range(1, len(seq)) if seq[i] == seq[i - 1]), None)
            stats["steps"].append(fp)
            # seq[i] = f^i(x); fixed point reached within five applications: f^6(x) == f^5(x) at the latest
            revisit = any(seq[i] == seq[j] for i in range(len(seq)) for j in range(i + 2, len(seq)) if seq[i] != seq[i + 1])
            eng.claim(fp is not None and fp <= 6 and not revisit,
                      info={"what": "no fixed point within five applications" if fp is None else "oscillation",
                            "sequence": [s[-200:] for s in seq]})
            return
        raise ValueError(mode)

    def track_parse(eng):
        if mode != "pure":
            return
        from pyrefact import core

        parsed = eng.path_state.setdefault("parsed", {})
        orig = getattr(core.parse, "__vk_orig__", core.parse)

        def parse(source_code):
            tree = orig(source_code)
            parsed[source_code] = tree
            return tree

        parse.__vk_orig__ = orig
        parse.cache_clear = orig.cache_clear
        core.parse = parse

    eng = sym.Engine(budget_s=budget_s, max_paths=max_paths, max_cex=3)
    eng.path_hooks.append(instrument.reset_caches)
    eng.path_hooks.append(track_parse)
    try:
        res = eng.explore(harness)
    finally:
        if mode == "pure":
            from pyrefact import core

            core.parse = getattr(core.parse, "__vk_orig__", core.parse)
    d = res.as_dict()
    d["notes"] = {"changed": stats["changed"], "crash": stats["crash"], "branched_on": d["branches"],
                  "fixed_point_after": stats["steps"][:4]}
    d["fired"] = stats["changed"]
    if stats["crash"] and mode != "total":
        d["allow_vacuous"] = True
    if not stats["changed"]:
        d["trivial"] = True
    return d


def prop_case(ob, r, cex):
    info = cex.get("info") or {}
    what = info.get("what", "?")
    if what == "raises":
        what = "raises:%s" % info.get("exception")
    return {"kind": "prop", "mode": ob.params["mode"], "skeleton": ob.params["skeleton"], "transform": ob.params["transform"],
            "model": cex["model"], "key": "%s|%s" % (ob.oid, what)}


def prop_replay(case):
    import ast as _ast

    from . import symtv

    sk = Skeleton.from_json(case["skeleton"])
    T = get_transform(case["transform"])
    text = symtv.concrete_program(sk.text, case["model"])
    mode = case["mode"]
    if mode == "total":
        try:
            out = T(text)
        except BaseException as e:  # noqa: BLE001
            return {"reproduced": True, "key": "%s|raises:%s" % (case["oid"], type(e).__name__),
                    "detail": "%s raised %r on:\n%s" % (case["transform"], e, text[-700:])}
        return {"reproduced": not isinstance(out, str), "detail": "returned %r" % type(out)}
    fh = fresh_vs_history(case["transform"], text) if mode == "pure" else None  # before this process has seen the text
    out = T(text)
    if mode == "valid":
        try:
            _ast.parse(out)
            return {"reproduced": False, "detail": "output parses"}
        except SyntaxError as e:
            return {"reproduced": True, "detail": "%s turned valid input into text that does not parse (%s):\n%s\n--- output:\n%s" % (
                case["transform"], e, text[-600:], out[-600:])}
    if mode == "pure":
        from pyrefact import core

        parsed = {}
        orig = core.parse

        def parse(source_code):
            tree = orig(source_code)
            parsed[source_code] = tree
            return tree

        core.parse = parse
        try:
            out2 = T(text)
            for earlier in history_texts(text):
                try:
                    T(earlier)
                except Exception:  # noqa: BLE001
                    pass
            for i in range(130):
                orig("pad_%d = %d\n" % (i, i))
            out3 = T(text)
        finally:
            core.parse = orig
        stale = [t[:60] for t, tree in parsed.items() if _ast.dump(tree) != _ast.dump(_ast.parse(t))]
        bad = out2 != out or out3 != out or bool(stale)
        if fh is not None and fh[0] != fh[1]:
            return {"reproduced": True, "detail": "%s gives a different result for the same text after relatives of it were "
                    "formatted first in the same process:\n--- fresh process:\n%s\n--- after history:\n%s" % (
                        case["transform"], fh[0][-500:], fh[1][-500:])}
        return {"reproduced": bad, "detail": "%s called three times on the same text: equal=%s, stale cached trees: %s\n%s" % (
            case["transform"], (out2 == out, out3 == out), stale[:2], text[-400:])}
    if mode == "converge":
        seq = [text, out]
        for _ in range(5):
            seq.append(T(seq[-1]))
        fp = next((i for i in range(1, len(seq)) if seq[i] == seq[i - 1]), None)
        revisit = any(seq[i] == seq[j] for i in range(len(seq)) for j in range(i + 2, len(seq)) if seq[i] != seq[i + 1])
        bad = fp is None or fp > 6 or revisit
        return {"reproduced": bad, "detail": "%s applied 6 times: fixed point after %s application(s), revisit=%s\n%s" % (
            case["transform"], None if fp is None else fp - 1, revisit, "\n-----\n".join(s[-300:] for s in seq[:4]))}
    raise ValueError(mode)
