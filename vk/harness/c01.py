"""C01 - whole-pipeline refactoring preserves program behaviour.

T = the real `pyrefact.format_code` under option combinations {safe} x {keep_imports} x {preserve: none / all
definitions} x {line length 60, 100}, run in symbolic-literal mode (the whole text pipeline - scheduler,
_do_rewrite, validity rollback, black, rmspace - runs unchanged on marker-bearing text); then the original and
the refactored program are executed symbolically and z3 decides trace equality and normal termination for all
inputs / tape values / literal values of the path."""
from __future__ import annotations

import ast
import itertools
import random

from vk import families, pool, poolfam, rulefam
from vk.common import Obligation

PROPERTY = "C01"
LEVEL = "translation_validation"
ENCODED = ["pyrefact.main:format_code", "pyrefact.main:_multi_run_fixes", "pyrefact.processing:*", "pyrefact.fixes:*",
           "pyrefact.symbolic_math:*", "pyrefact.abstractions:*", "pyrefact.object_oriented:*", "pyrefact.performance:*",
           "pyrefact.core:*", "pyrefact.parsing:*"]
STUBS = ["unknown functions / values of a program are tape-backed (fresh solver variables per dynamic evaluation)"]
ASSUMPTIONS = [
    "oracle: type-tagged stdout trace + normal termination",
    "inputs in -3..3, rule-visible literals all naturals < 10**6, tape <= 12, fuel <= 600",
    "third-party stages (black, rmspace, sympy, difflib) run concretely on the marker-bearing text; marker tokens are "
    "wider than the literals they stand for, so line wrapping may differ from the concrete run (layout only)",
]
OUTSIDE = ["floats beyond exact range, I/O, class hierarchies, generators/async, introspection", "numpy/pandas rules",
           "programs outside the families"]

OPTS = [dict(safe=s, keep_imports=k, preserve=p, max_line_length=l)
        for s, k, p, l in itertools.product((1, 0), (0, 1), ("", "ALL"), (100, 60))]


def bounds(tier):
    return {"option_combinations": 16, "per_skeleton": "2 (16 on six; the per-rule programs outside the sample of 30: unsafe mode only)" if tier == "quick" else "2 on all, 16 on a subset",
            "pool": "harvested snippets + grammar programs + literal-sensitive families"}


def _tname(sk, o):
    pres = ""
    if o["preserve"] == "ALL":
        try:
            tree = ast.parse(sk.text)
            names = sorted({n.name for n in ast.walk(tree) if isinstance(n, (ast.FunctionDef, ast.ClassDef))})
            pres = "+".join(names)
        except SyntaxError:
            pres = ""
    return "format_code:safe=%d,keep_imports=%d,max_line_length=%d,preserve=%s" % (
        o["safe"], o["keep_imports"], o["max_line_length"], pres)


def _oid(o):
    return "s%dk%dp%sl%d" % (o["safe"], o["keep_imports"], "A" if o["preserve"] else "0", o["max_line_length"])


def obligations(tier, seed):
    rnd = random.Random(seed)
    quick = tier == "quick"
    hv = poolfam.harvested_skeletons()
    gr = poolfam.grammar_skeletons(40 if quick else None, seed)
    lit = list(families.c16_skeletons("quick"))
    c17 = list(families.c17_two_comparisons()) + list(families.c17_constrained_range("quick")) + list(families.c17_mixed())
    # a program that looks a name up through a string (getattr(obj, 'm')) introspects its own names: outside the
    # program class of the statement (unsafe mode deletes the method that no code mentions by name)
    pointless = [sk for sk in families.c16_pointless_skeletons() if "getattr(" not in sk.text]
    loopv = list(poolfam.loopvar_skeletons())
    if quick:
        sks = (rnd.sample(hv, 60) + gr[:30] + rnd.sample(lit[::5], 20) + rnd.sample(c17[::6], 12) + rnd.sample(pointless[::2], 12) + loopv)
    else:
        sks = hv + gr + lit[::5] + c17[::6] + pointless[::2] + loopv
    # hand-written per-rule programs (the shapes that the harvested snippets cannot reach), through the pipeline
    fam = rulefam.skeletons()
    fam_sample = rnd.sample(fam, 30) if quick else fam
    sks = sks + fam_sample + rulefam.layout_skeletons()
    obs = []
    full = set(id(s) for s in (rnd.sample(sks, 6) if quick else rnd.sample(sks, 60)))
    base = [OPTS[0], OPTS[8]]  # safe / unsafe with defaults
    # quick tier: the rest of the hand-written per-rule programs through the pipeline once (unsafe mode) - a change
    # that needs one particular shape must not depend on the seed's sample of 30
    once = set()
    if quick:
        rest = [sk for sk in fam if all(sk is not x for x in fam_sample)]
        once = set(id(s) for s in rest)
        sks = sks + rest
    for sk in sks:
        combos = [OPTS[8]] if id(sk) in once else (OPTS if id(sk) in full else base)
        for o in combos:
            tr = _tname(sk, o)
            obs.append(Obligation("fc/%s/%s" % (_oid(o), sk.sid), pool.ob_tv,
                                  dict(skeleton=sk.to_json(), transform=tr, budget_s=60.0, max_cex=3, max_paths=250 if quick else 400),
                                  hard_timeout=150, sample={"program": sk.text[-400:], "options": o}))
    return obs


def case_of(ob, r, cex):
    return pool.tv_case(ob, r, cex)


def replay(case):
    return pool.tv_replay(case)


def evidence_extra(obligations, results):
    fired = sum(1 for r in results if r.get("fired"))
    crashes = sum(1 for r in results if (r.get("notes") or {}).get("crash"))
    return {"programs": fired, "pipeline_changed_text_on": fired,
            "trivial_not_counted": sum(1 for r in results if r.get("trivial")),
            "pipeline_crashes_seen(C04)": crashes}
