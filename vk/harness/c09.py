"""C09 - repeated formatting converges and never oscillates.

(a) antisymmetry of the orientation heuristic: real `fixes._orelse_preferred_as_body` on abstract branches
    (statement stubs whose kind - pass / plain / return-like / raising / if with k nested branches - is symbolic;
    `core.is_blocking` and `_count_branches` read the symbolic attributes), list lengths 1..4, under the two
    preconditions under which a swap can be undone by a swap (only the last statement of a block can be blocking;
    neither branch consists of `pass` only): pref(b, o) and pref(o, b) is unsatisfiable. A counterexample is
    concretised into a real if/else and replayed with swap_if_else / format_code six times; only a real
    ping-pong is reported;
(b) the cycle cut is idempotent: real `format_code` with `_multi_run_fixes` replaced by an arbitrary function on
    <= 5 inert texts (solver-chosen table): the result R satisfies format_code(R) == R;
(c) pool: on every path of the symbolic-literal run over the shared pool, format_code is applied six times in a
    row: a fixed point is reached within five applications and no earlier text is revisited."""
from __future__ import annotations

import ast
import itertools
import random

from vk import pool, poolfam
from vk.common import Obligation

PROPERTY = "C09"
LEVEL = "model_checking"
ENCODED = ["pyrefact.fixes:_orelse_preferred_as_body", "pyrefact.main:format_code", "pyrefact.main:_multi_run_fixes",
           "pyrefact.fixes:swap_if_else"]
STUBS = ["(a): statements are stubs with symbolic kind; core.is_blocking / fixes._count_branches read the stub's symbolic "
         "attributes", "(b): main._multi_run_fixes is a solver-chosen table over 5 inert texts"]
ASSUMPTIONS = ["(a) preconditions: unreachable tails are deleted earlier in the pass (only the last statement of a block "
               "blocks); the consumer drops `pass` from the new else, so all-pass branches leave no explicit if/else",
               "(c) option combinations {safe, unsafe} only"]
OUTSIDE = ["programs outside the pool", "other option combinations"]

PASS, PLAIN, RET, RAISE, IFB = range(5)
KIND_SRC = {PASS: "pass", PLAIN: "work()", RET: "return 1", RAISE: "raise E()"}


def bounds(tier):
    return {"branch_lengths": "1..4 x 1..4", "abstract_texts": 5, "applications": 6,
            "pool": 50 if tier == "quick" else "whole pool"}


class St:
    def __init__(self, eng, name):
        self.kind = eng.var(name + "_k")
        self.nif = eng.var(name + "_n")
        self.ifblocking = eng.var(name + "_b", "bool")


def ob_antisym(lb, lo):
    import builtins
    import z3

    from vk import sym
    from pyrefact import core, fixes

    def blocking_e(st):
        return z3.Or(st.kind == RET, st.kind == RAISE, z3.And(st.kind == IFB, st.ifblocking))

    def my_isinstance(obj, types_):
        if builtins.isinstance(obj, St):
            ts = types_ if builtins.isinstance(types_, tuple) else (types_,)
            if set(ts) == {ast.Pass}:
                return sym.SymBool(obj.kind == PASS)
            if set(ts) == {ast.Return, ast.Continue, ast.Break}:
                return sym.SymBool(obj.kind == RET)
            raise sym.Unsupported("isinstance(stub, %s)" % (ts,))
        return sym.sym_isinstance(obj, types_)

    def harness(eng):
        body = [St(eng, "b%d" % i) for i in range(lb)]
        orelse = [St(eng, "o%d" % i) for i in range(lo)]
        for blk in (body, orelse):
            for i, st in enumerate(blk):
                eng.require(z3.And(st.kind >= 0, st.kind <= 4, st.nif >= 1, st.nif <= 8))
                if i < len(blk) - 1:
                    eng.require(z3.Not(blocking_e(st)))
        eng.require(z3.Or(*[st.kind != PASS for st in body]))
        eng.require(z3.Or(*[st.kind != PASS for st in orelse]))
        saved = (fixes.__dict__["isinstance"], core.is_blocking, fixes._count_branches)
        fixes.__dict__["isinstance"] = my_isinstance
        core.is_blocking = lambda node, *a: sym.SymBool(blocking_e(node))
        fixes._count_branches = lambda nodes: sym.SymInt(1 + z3.Sum(*[z3.If(n.kind == IFB, n.nif, 0) for n in nodes]))
        try:
            p1 = fixes._orelse_preferred_as_body(body, orelse)
            p2 = fixes._orelse_preferred_as_body(orelse, body)
        finally:
            fixes.__dict__["isinstance"], core.is_blocking, fixes._count_branches = saved
        t1 = sym.term(p1) if sym.is_sym(p1) else z3.BoolVal(bool(p1))
        t2 = sym.term(p2) if sym.is_sym(p2) else z3.BoolVal(bool(p2))
        eng.claim(z3.Not(z3.And(t1, t2)), info=lambda m: {
            "what": "both orientations preferred",
            "body": [[sym.concretize(s.kind, m), sym.concretize(s.nif, m), sym.concretize(s.ifblocking, m)] for s in body],
            "orelse": [[sym.concretize(s.kind, m), sym.concretize(s.nif, m), sym.concretize(s.ifblocking, m)] for s in orelse]})

    eng = sym.Engine(budget_s=120, max_cex=2)
    return eng.explore(harness)


def _stmt_src(kind, nif, blocking, depth=0):
    if kind != IFB:
        return KIND_SRC[kind]
    # an if statement with `nif` nested ifs in total, blocking iff every branch ends blocking
    leaf = "return 2" if blocking else "work()"
    src = "if c0:\n    %s\nelse:\n    %s" % (leaf, leaf)
    for i in range(1, int(nif)):
        src = "if c%d:\n%s\nelse:\n    %s" % (i, "\n".join("    " + l for l in src.split("\n")), leaf)
    return src


def concretise_if(body, orelse):
    def block(sts):
        return "\n".join("\n".join("        " + l for l in _stmt_src(*s).split("\n")) for s in sts)

    return "def f(t, c0, c1, c2, c3, c4, c5, c6, c7):\n    if t:\n%s\n    else:\n%s\n    return 0\n" % (block(body), block(orelse))


INERT = ["print(%d)\n" % i for i in range(5)]


def ob_cycle_cut():
    import importlib
    import z3

    from vk import instrument, sym

    main = importlib.import_module("pyrefact.main")

    def harness(eng):
        table = []
        for i in range(5):
            v = eng.var("f%d" % i)
            eng.require(z3.And(0 <= v, v <= 4))
            table.append(sym.SymInt(v))
        calls = [0]

        def stub(source, preserve):
            calls[0] += 1
            if source in INERT:
                return INERT[table[INERT.index(source)].__index__()]
            return source

        saved = main._multi_run_fixes
        main._multi_run_fixes = stub
        try:
            r1 = main.format_code(INERT[0], safe=True)
            c1 = calls[0]
            r2 = main.format_code(r1, safe=True)
        finally:
            main._multi_run_fixes = saved
        eng.claim(r2 == r1 and c1 <= 6, info=lambda m: {"what": "cycle cut not idempotent", "table": [sym.concretize(t, m) for t in table],
                                                          "first": r1, "second": r2, "calls": c1})

    eng = sym.Engine(budget_s=200, max_paths=20000, max_cex=2)
    eng.max_enum = 16
    eng.path_hooks.append(instrument.reset_caches)
    return eng.explore(harness)


def obligations(tier, seed):
    rnd = random.Random(seed)
    quick = tier == "quick"
    obs = []
    for lb, lo in itertools.product(range(1, 5), repeat=2):
        obs.append(Obligation("antisym/%d-%d" % (lb, lo), ob_antisym, {"lb": lb, "lo": lo}, hard_timeout=200,
                              sample={"body_len": lb, "orelse_len": lo}))
    obs.append(Obligation("cycle-cut", ob_cycle_cut, {}, hard_timeout=400, sample={"texts": INERT}))
    sks = poolfam.pool_skeletons(tier, seed) + poolfam.direct_edit_skeletons() + poolfam.swap_skeletons()
    if quick:
        from vk import rulefam

        # the layout / tricky programs always (interplay of text-level stages and of rule pairs), the rest sampled
        sks = rnd.sample(sks, 45) + poolfam.swap_skeletons()[:10] + rulefam.layout_skeletons() + rulefam.tricky_skeletons()
        sks = list({sk.sid: sk for sk in sks}.values())
    for sk in sks:
        for tr in ("format_code:safe=0", "format_code:safe=1"):
            if quick and tr.endswith("1") and rnd.random() < 0.5:
                continue
            obs.append(Obligation("converge/%s/%s" % (tr.split(":")[1], sk.sid), pool.ob_prop,
                                  {"skeleton": sk.to_json(), "transform": tr, "mode": "converge", "budget_s": 120.0,
                                   "max_paths": 60}, hard_timeout=260, sample={"program": sk.text[-300:], "transform": tr}))
    return obs


def case_of(ob, r, cex):
    info = cex.get("info") or {}
    if ob.oid.startswith("antisym/"):
        return {"kind": "antisym", "body": info.get("body"), "orelse": info.get("orelse"), "key": "%s|both-preferred" % ob.oid}
    if ob.oid == "cycle-cut":
        return {"kind": "cycle", "table": info.get("table"), "key": "cycle-cut|not-idempotent"}
    return pool.prop_case(ob, r, cex)


def replay(case):
    import importlib

    k = case["kind"]
    if k == "prop":
        return pool.prop_replay(case)
    if k == "cycle":
        main = importlib.import_module("pyrefact.main")
        table = case["table"]
        saved = main._multi_run_fixes
        main._multi_run_fixes = lambda source, preserve: INERT[table[INERT.index(source)]] if source in INERT else source
        try:
            r1 = main.format_code(INERT[0], safe=True)
            r2 = main.format_code(r1, safe=True)
        finally:
            main._multi_run_fixes = saved
        return {"reproduced": r1 != r2, "detail": "stub table %s: format_code -> %r -> %r" % (table, r1, r2)}
    from pyrefact import fixes
    import pyrefact

    src = concretise_if(case["body"], case["orelse"])
    try:
        ast.parse(src)
    except SyntaxError as e:
        return {"reproduced": False, "detail": "could not concretise: %s" % e}
    seqs = {}
    for name, f in (("swap_if_else", fixes.swap_if_else), ("format_code", lambda s: pyrefact.format_code(s, safe=True))):
        seq = [src]
        for _ in range(6):
            seq.append(f(seq[-1]))
        seqs[name] = seq
    bad = []
    for name, seq in seqs.items():
        fp = next((i for i in range(1, len(seq)) if seq[i] == seq[i - 1]), None)
        revisit = any(seq[i] == seq[j] for i in range(len(seq)) for j in range(i + 2, len(seq)) if seq[i] != seq[i + 1])
        if fp is None or revisit:
            bad.append(name)
    return {"reproduced": bool(bad), "detail": "abstract counterexample concretised to:\n%s\nping-pong under: %s" % (src, bad)}
