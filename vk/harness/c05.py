"""C05 - formatting is a pure function of its input (history independence).

Histories are not explored. Representation invariant I: every tree handed out by the cached `core.parse` still
dumps like a fresh parse of its source text. If every call preserves I, every later call sees caches that are
observationally fresh, so (pyrefact being otherwise deterministic, C06) f(x) after any history equals f(x) in a
fresh process. Decided per (rule or format_code, skeleton) on every path of the symbolic-literal run with the
real lru_caches in place: (i) after the call, I holds for every tree that core.parse handed out on the path;
(ii) a second call on the warm caches returns the identical text; (iii) so does a third call after an interposed
history (same text under another configuration, a pass whose transaction is rolled back, another text).
The symbolic dimension is only the program's literals - a mutation bug rarely depends on them - so most
obligations are single-path (evidence: branched_on); this is the honest extent to which the technique reaches
this property."""
from __future__ import annotations

import random

from vk import pool, poolfam
from vk.common import Obligation

PROPERTY = "C05"
LEVEL = "model_checking"
ENCODED = ["pyrefact.core:parse", "pyrefact.core:compile_template", "pyrefact.core:_group_nodes_in_scope",
           "pyrefact.core:is_valid_python", "pyrefact.main:format_code", "pyrefact.fixes:*", "pyrefact.performance:*",
           "pyrefact.object_oriented:*", "pyrefact.abstractions:*"]
STUBS = ["core.parse is wrapped by a recorder that notes (text -> the tree object handed out); the cache itself is real"]
ASSUMPTIONS = ["degenerate symbolic dimension (literals only); caches are never filled up to their maxsize (eviction order "
               "is outside the claim)", "'fresh process' is represented by the first call on the path, which starts from "
               "cleared caches"]
OUTSIDE = ["histories that evict cache entries", "compiled-template cache entries of other patterns"]


def bounds(tier):
    return {"pool": "shared pool x {own rule, every rule on a sample, format_code safe/unsafe}", "calls_per_obligation": 3}


# programs whose formatting consults the long-lived caches of the import tracing (stdlib modules only)
STAR = [pool.Skeleton("star/%d" % i, t, meta={"rule": r}) for i, (t, r) in enumerate([
    ("from os.path import *\n\nprint(join('a', 'b'), basename('c/d'))\n", "rule:tracing.fix_starred_imports"),
    ("from math import *\n\nprint(floor(2.5), pi > 3)\n", "rule:tracing.fix_starred_imports"),
    ("from os.path import *\nfrom math import *\n\nprint(join('a', 'b'), floor(7000 / 2))\n", "rule:tracing.fix_starred_imports"),
    ("from os import path\nfrom os.path import join\n\nprint(path.join('a', 'b'), join('c', 'd'))\n", "rule:tracing.fix_reimported_names"),
    ("import os.path\nfrom collections import *\n\nprint(OrderedDict(a=1), os.path.sep)\n", "rule:tracing.fix_starred_imports"),
])]


def obligations(tier, seed):
    rnd = random.Random(seed)
    quick = tier == "quick"
    sks = poolfam.pool_skeletons(tier, seed) + poolfam.direct_edit_skeletons()
    if quick:
        sks = rnd.sample(sks, 40)
    sks = sks + STAR
    jobs = []
    if quick:
        # every harvested snippet through its own rule (cheap): a rule that mutates a cached tree shows on the
        # inputs it fires on, which a 40-program sample rarely contains
        have = {sk.sid for sk in sks}
        jobs += [(sk, sk.meta["rule"]) for sk in poolfam.harvested_skeletons() if sk.meta.get("rule") and sk.sid not in have]
        from vk import rulefam

        jobs += [(sk, sk.meta["rule"]) for sk in rulefam.skeletons() if sk.meta.get("rule") and sk.sid not in have]
    for sk in sks:
        if sk.meta.get("rule"):
            jobs.append((sk, sk.meta["rule"]))
        jobs.append((sk, "format_code:safe=1"))
        if not quick or rnd.random() < 0.2:
            jobs.append((sk, "format_code:safe=0"))
    rules = [t for t in poolfam.scheduled_rules() if "numpy" not in t and "pandas" not in t]
    for sk in (rnd.sample(sks, 4) if quick else sks[::5]):
        for tr in rules:
            jobs.append((sk, tr))
    obs = []
    for sk, tr in jobs:
        obs.append(Obligation("pure/%s/%s" % (tr.split(":", 1)[1][:40], sk.sid), pool.ob_prop,
                              {"skeleton": sk.to_json(), "transform": tr, "mode": "pure", "budget_s": 90.0}, hard_timeout=200,
                              sample={"program": sk.text[-300:], "transform": tr}))
    return obs


def case_of(ob, r, cex):
    return pool.prop_case(ob, r, cex)


def replay(case):
    return pool.prop_replay(case)


def evidence_extra(obligations, results):
    return {"changed_text": sum(1 for r in results if r.get("fired")),
            "branched": sum(1 for r in results if (r.get("notes") or {}).get("branched_on"))}
