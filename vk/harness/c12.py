"""C12 - pattern matching agrees with its declarative semantics.

(a) list quantifiers = regular expressions: real `core._match_list` on a word of symbolic letters vs
    z3's own sequence-regex theory (`InRe`);
(b) named wildcards in lists = back-references: oracle is a disjunction over segmentations;
(c) trees: `core.match_template(node, compile_template(pattern))` on parsed code whose integer constants
    are marker literals (solver variables) vs an independently written structural matcher that returns a
    z3 formula over the constants; includes 'every tree matches itself';
(d) search completeness: the occurrence set of `pattern_matching.finditer` vs the reference matcher
    applied at every node / statement window of the source."""
from __future__ import annotations

import ast
import itertools
import random

PROPERTY = "C12"
LEVEL = "model_checking"
ENCODED = [
    "pyrefact.core:match_template", "pyrefact.core:_match_list", "pyrefact.core:_iter_template_permutations",
    "pyrefact.core:merge_matches", "pyrefact.core:_all_fields_consistent", "pyrefact.core:_match_wildcard",
    "pyrefact.core:compile_template", "pyrefact.core:walk_wildcard", "pyrefact.core:walk_sequence",
    "pyrefact.processing:find_replace", "pyrefact.pattern_matching:finditer",
]
STUBS = []
ASSUMPTIONS = [
    "letters of a word are integers in 0..2 (symbolic); templates range over {a, a?, a*, a+} x 2 letters, "
    "named and anonymous wildcards",
    "a named ?, * or + wildcard stands for zero-or-one / any number / at least one *arbitrary* elements (the "
    "regular-expression reading of the statement); only plain named wildcards are back-references",
    "tree shapes are enumerated; their integer constants are marker literals over all naturals < 10**6",
]
OUTSIDE = ["patterns that consist of a single wildcard only", "templates longer than the bounds", "typed wildcards beyond the listed ones", "set templates with wildcards"]


def bounds(tier):
    return {"template_length": 3 if tier == "quick" else 4, "word_length": 4 if tier == "quick" else 6,
            "letters": 3, "tree_depth": 2, "constants": "all naturals < 10**6 (symbolic)"}


# ------------------------------------------------------------------------------------------ (a) + (b)
# template item: (kind, payload) with kind in one/opt/star/plus and payload a letter (int) or wildcard name
# ('x', 'y') or None for the anonymous wildcard


def _items(names):
    pay = [0, 1] + list(names)
    return [(k, p) for k in ("one", "opt", "star", "plus") for p in pay]


def _mk_template(core, items):
    out = []
    for kind, p in items:
        if isinstance(p, int):
            t = p
            q = t
        elif p == "_":
            t = object
            q = t
        else:
            t = core.Wildcard(p, object, common=(kind == "one"))
            q = t
        out.append({"one": lambda q: q, "opt": core.ZeroOrOne, "star": core.ZeroOrMany, "plus": core.OneOrMany}[kind](q))
    return out


def _segmentations(items, n):
    """All ways to give each template item a count compatible with its quantifier, summing to n."""
    ranges = []
    for kind, _p in items:
        ranges.append({"one": (1, 1), "opt": (0, 1), "star": (0, n), "plus": (1, n)}[kind])
    for counts in itertools.product(*[range(lo, hi + 1) for lo, hi in ranges]):
        if sum(counts) == n:
            yield counts


def _spec_list(items, letters, strict=False):
    """strict: the elements taken by a *named* ?, * or + wildcard are bound to its name as well (they must
    all be the same tree); loose: they are arbitrary. The statement admits both readings for named quantified
    wildcards, so a match must imply the loose reading and be implied by the strict one."""
    import z3

    n = len(letters)
    alts = []
    for counts in _segmentations(items, n):
        conj, pos, bound = [], 0, {}
        for (kind, p), c in zip(items, counts):
            seg = letters[pos:pos + c]
            pos += c
            if isinstance(p, int):
                conj += [l == p for l in seg]
            elif p != "_" and (kind == "one" or strict):
                bound.setdefault(p, []).extend(seg)
        for name, ls in bound.items():
            conj += [a == b for a, b in zip(ls, ls[1:])]
        alts.append(z3.And(*conj) if conj else z3.BoolVal(True))
    return z3.Or(*alts) if alts else z3.BoolVal(False)


def _regex(items):
    import z3

    parts = []
    for kind, p in items:
        unit = z3.Re(z3.Unit(z3.IntVal(p)))
        parts.append({"one": lambda u: u, "opt": z3.Option, "star": z3.Star, "plus": z3.Plus}[kind](unit))
    if not parts:
        return z3.Re(z3.Empty(z3.SeqSort(z3.IntSort())))
    r = parts[0]
    for p in parts[1:]:
        r = z3.Concat(r, p)
    return r


def ob_list(items, n, use_regex):
    import z3
    from vk import instrument, sym
    from pyrefact import core

    def harness(eng):
        letters = [eng.var("w%d" % i) for i in range(n)]
        for l in letters:
            eng.require(z3.And(l >= 0, l <= 2))
        word = [sym.SymInt(l) for l in letters]
        template = _mk_template(core, items)
        got = bool(core._match_list(word, template, core.DEFAULT_IGNORE))
        got2 = bool(core.match_template(word, template))
        if use_regex:
            seq = z3.Empty(z3.SeqSort(z3.IntSort()))
            for l in letters:
                seq = z3.Concat(seq, z3.Unit(l))
            spec = z3.InRe(seq, _regex(items))
            eng.claim(spec if got else z3.Not(spec), info={"matched": got})
        else:
            loose = _spec_list(items, letters)
            strict = _spec_list(items, letters, strict=True)
            eng.claim(loose if got else z3.Not(strict), info={"matched": got})
        eng.claim(got == got2, info={"what": "match_template disagrees with _match_list"})

    eng = sym.Engine(budget_s=60, max_cex=3)
    eng.path_hooks.append(instrument.reset_caches)
    return eng.explore(harness)


def ob_list_batch(batch):
    agg = {"status": "confirmed", "paths": 0, "branches": 0, "checks": 0, "solver_s": 0.0, "claims": 0, "cexs": [],
           "inconclusive": []}
    for items, n, use_regex in batch:
        d = ob_list(items, n, use_regex).as_dict()
        for k in ("paths", "branches", "checks", "claims"):
            agg[k] += d[k]
        agg["solver_s"] += d["solver_s"]
        from vk import sym as _sym
        _sym.merge_xcheck(agg, d)
        for c in d["cexs"]:
            c["items"], c["n"] = items, n
            agg["cexs"].append(c)
        agg["inconclusive"] += d["inconclusive"]
    if agg["cexs"]:
        agg["status"] = "refuted"
    elif agg["inconclusive"]:
        agg["status"] = "inconclusive"
    return agg


# ------------------------------------------------------------------------------------------ (c) + (d)
# Mini-syntax for patterns (independent of pyrefact's {{..}} compiler): identifiers
#   W_x      named wildcard x           ANY       {{...}}
#   WQ_x     {{x?}}   WS_x  {{x*}}   WP_x  {{x+}}     ANYQ / ANYS / ANYP   {{...?}} {{...*}} {{...+}}


def to_pyrefact_pattern(p):
    import re

    p = re.sub(r"\bW_(\w+)\b", r"{{\1}}", p)
    p = re.sub(r"\bWQ_(\w+)\b", r"{{\1?}}", p)
    p = re.sub(r"\bWS_(\w+)\b", r"{{\1*}}", p)
    p = re.sub(r"\bWP_(\w+)\b", r"{{\1+}}", p)
    p = p.replace("ANYQ", "{{...?}}").replace("ANYS", "{{...*}}").replace("ANYP", "{{...+}}").replace("ANY", "{{...}}")
    return p


def _wc(node):
    """(kind, name) when the pattern node is a wildcard of the mini-syntax, else None."""
    if isinstance(node, ast.Expr):
        node = node.value
    if isinstance(node, ast.Name):
        i = node.id
        for pre, kind in (("W_", "one"), ("WQ_", "opt"), ("WS_", "star"), ("WP_", "plus")):
            if i.startswith(pre):
                return kind, i[len(pre):]
        if i in ("ANY", "ANYQ", "ANYS", "ANYP"):
            return {"ANY": "one", "ANYQ": "opt", "ANYS": "star", "ANYP": "plus"}[i], None
    return None


IGNORED_FIELDS = {"lineno", "col_offset", "end_lineno", "end_col_offset", "ctx", "kind", "type_comment"}


def _eq_tree(a, b):
    """Structural equality of two trees as a list of solver conditions, or None when they differ."""
    from vk import sym

    if isinstance(a, ast.AST) and isinstance(b, ast.AST):
        if type(a) is not type(b):
            return None
        acc = []
        for f in a._fields:
            if f in IGNORED_FIELDS:
                continue
            r = _eq_tree(getattr(a, f, None), getattr(b, f, None))
            if r is None:
                return None
            acc += r
        return acc
    if isinstance(a, list) and isinstance(b, list):
        if len(a) != len(b):
            return None
        acc = []
        for x, y in zip(a, b):
            r = _eq_tree(x, y)
            if r is None:
                return None
            acc += r
        return acc
    if sym.is_sym(a) or sym.is_sym(b):
        if sym.tag(a) != sym.tag(b):
            return None
        return [sym.term(a) == sym.term(b)]
    return [] if (type(a) is type(b) and a == b) else None


def _bind(b, name, node):
    b = dict(b)
    b[name] = b.get(name, ()) + (node,)
    return b


def _bind_many(b, name, nodes):
    for n in nodes:
        b = _bind(b, name, n)
    return b


def _match(pat, node, b, strict=False):
    """Independent structural matcher, written from the statement: all ways `pat` matches `node`,
    as a list of (solver conditions, wildcard bindings)."""
    from vk import sym

    w = _wc(pat)
    if w is not None and w[0] == "one":
        if isinstance(pat, ast.Expr) and not isinstance(node, ast.stmt):
            return []
        if node is None:
            return []
        return [([], _bind(b, w[1], node) if w[1] is not None else b)]
    if isinstance(pat, ast.AST):
        if type(pat) is not type(node):
            return []
        alts = [([], b)]
        for f in pat._fields:
            if f in IGNORED_FIELDS:
                continue
            nxt = []
            for conds, bb in alts:
                for c2, b2 in _match(getattr(pat, f, None), getattr(node, f, None), bb, strict):
                    nxt.append((conds + c2, b2))
            alts = nxt
            if not alts:
                return []
        return alts
    if isinstance(pat, list):
        if not isinstance(node, list):
            return []
        kinds = [(_wc(p) or ("one",))[0] for p in pat]
        n = len(node)
        ranges = [{"one": (1, 1), "opt": (0, 1), "star": (0, n), "plus": (1, n)}[k] for k in kinds]
        out = []
        for counts in itertools.product(*[range(lo, hi + 1) for lo, hi in ranges]):
            if sum(counts) != n:
                continue
            alts, pos = [([], b)], 0
            for p, k, c in zip(pat, kinds, counts):
                seg = node[pos:pos + c]
                pos += c
                if _wc(p) is not None and k != "one":
                    # quantified wildcard: any elements (strict reading: bound to its name, all the same)
                    name = _wc(p)[1]
                    if strict and name is not None:
                        alts = [(conds, _bind_many(bb, name, seg)) for conds, bb in alts]
                    continue
                nxt = []
                for conds, bb in alts:
                    for c2, b2 in _match(p, seg[0], bb, strict):
                        nxt.append((conds + c2, b2))
                alts = nxt
                if not alts:
                    break
            out += alts
        return out
    if sym.is_sym(pat) or sym.is_sym(node):
        if isinstance(pat, bool) or isinstance(node, bool):
            return []
        if not (isinstance(pat, (int, sym.SymInt)) and isinstance(node, (int, sym.SymInt))):
            return []
        return [([sym.term(pat) == sym.term(node)], b)]
    if isinstance(pat, str) and pat.startswith("W_") and isinstance(node, str):
        return [([], _bind(b, pat[2:], node))]  # wildcard in an identifier slot (attribute / keyword name)
    return [([], b)] if (type(pat) is type(node) and pat == node) else []


def ref_match(pat, node, strict=False):
    """z3 formula (or True/False): `node` is `pat` with wildcards replaced by trees, the same tree for
    every occurrence of a plain named wildcard."""
    import z3

    alts = []
    for conds, b in _match(pat, node, {}, strict):
        ok = True
        conds = list(conds)
        for name, nodes in b.items():
            for x, y in zip(nodes, nodes[1:]):
                r = _eq_tree(x, y)
                if r is None:
                    ok = False
                    break
                conds += r
            if not ok:
                break
        if ok:
            if not conds:
                return True
            alts.append(z3.And(*conds))
    if not alts:
        return False
    return z3.Or(*alts)


def _seed(tree, tab):
    from vk import sym

    for n in ast.walk(tree):
        if type(n) is ast.Constant and type(n.value) is int and n.value in tab:
            n.value = sym.SymInt(tab[n.value])
    return tree


EXPR_SOURCES = [
    "7000", "x", "7000 + 7001", "x + 7000", "7000 + 7001 + 7002", "(7000 + 7001) * 7002", "f(7000)", "f(7000, 7001)",
    "f(7000, 7001, 7002)", "f(x, 7000, x)", "f()", "g(7000, 7001)", "f(7000)(7001)", "[7000, 7001, 7002]", "[7000]", "[]",
    "(7000, 7001)", "[7000, [7001, 7002]]", "7000 < 7001", "7000 < x < 7001", "x.a", "x.a.b", "f(x.a, 7000)",
    "f(7000 + 7001, 7001 + 7000)", "[f(7000), f(7001)]", "-7000", "not x", "x if 7000 else 7001", "f(a=7000)",
    "f(7000, a=7001)", "{7000: 7001}", "x[7000]", "f(7000 + 7000)", "7000 - 7001", "f(g(7000), g(7001))",
    # constants of different types that compare (and hash) equal in Python are different trees
    "1 == True", "1 == 1.0", "0 == False", "1 == 1", "True == True", "f(True, 1)", "f(0.0, False)", "f(1.0, 1.0)",
    "[1, 2, 1.0]", "[0, x, False]", "f(None, None)", "f('1', 1)", "f('a', 'a')", "f(b'a', 'a')", "{1: True}",
]
EXPR_PATTERNS = [
    "7000", "x", "W_x + W_x", "W_x + W_y", "W_x + 7001", "7000 + W_x", "W_x + W_y + W_x", "(W_x + W_y) * W_x",
    "f(W_x)", "f(W_x, W_y)", "f(W_x, W_x)", "f(W_x, W_y, W_x)", "f(WS_x)", "f(WP_x)", "f(WQ_x)", "f(ANYS)", "f(ANYP)",
    "f(ANYQ)", "f(W_x, ANYS)", "f(ANYS, W_x)", "f(W_x, ANYS, W_x)", "f(W_x, WS_y)", "f(WQ_x, 7001)", "W_f(7000)",
    "W_f(W_x, W_x)", "[W_x, W_y, W_x]", "[ANYS]", "[W_x, ANYS]", "[ANYS, W_x, ANYS]", "[W_x, WP_y]", "[]", "[W_x]",
    "(W_x, W_y)", "[W_x, [W_y, W_x]]", "W_x < W_y", "W_x < W_y < W_x", "7000 < W_x", "W_x.a", "W_x.a.b", "W_x.W_a",
    "f(W_x.a, W_y)", "f(W_x + W_y, W_y + W_x)", "[f(W_x), f(W_x)]", "-W_x", "not W_x", "W_a if W_x else W_x",
    "f(a=W_x)", "f(W_x, a=W_x)", "{W_x: W_x}", "W_x[W_y]", "f(W_x + W_x)", "W_x - W_x", "f(g(W_x), g(W_x))",
    "f(7000, 7001)", "7000 + 7001", "7001 + 7000", "W_x == W_x", "W_x == W_y",
]
STMT_SOURCES = [
    "x = 7000\n", "x = 7000\ny = 7001\n", "x = 7000\ny = 7000\nz = 7001\n", "f(7000)\n", "f(7000)\nf(7001)\ng(7000)\n",
    "if x:\n    y = 7000\n    y = 7001\nelse:\n    y = 7001\n    y = 7000\n",
    "def f(a):\n    x = 7000\n    y = 7001\n    return x + y\n",
    "for i in r:\n    x = 7000\n    x = 7001\nelse:\n    x = 7002\n",
    "while c:\n    x = 7000\n    x = 7000\n", "with a as b:\n    x = 7000\n    y = 7001\n",
    "x = 7000\nif c:\n    x = 7000\n    if d:\n        x = 7001\n", "class A:\n    x = 7000\n    y = 7001\n",
    "try:\n    x = 7000\n    x = 7001\nexcept E:\n    x = 7000\n    x = 7001\nfinally:\n    x = 7000\n    x = 7001\n",
    "x = y = 7000\n", "x += 7000\n", "return_ = 7000 + 7001\n", "import a\nx = 7000\n", "x = 7000; y = 7001\n",
    "def f():\n    return\n", "async def f():\n    async with a as b:\n        x = 7000\n        y = 7001\n    async for i in r:\n        x = 7000\n        y = 7001\n",
    "def f():\n    return 7000\n", "x = 1\ny = True\n", "if c:\n    x = 0\n    y = 0.0\nelse:\n    x = 1\n    y = 1\n", "f(1)\nf(1.0)\nf(True)\nf(1)\n",
]
STMT_PATTERNS = [
    "x = 7000", "x = W_v", "W_t = W_v", "W_t = 7000", "x = W_v\ny = W_v", "W_t = W_v\nW_u = W_v", "W_t = W_v\nW_t = W_w",
    "W_s\nW_s", "W_s\nW_t", "f(W_x)", "f(W_x)\nf(W_y)", "W_f(W_x)\nW_f(W_y)", "x = W_v\nANYS\nz = W_w",
    "y = W_v\ny = W_w", "x = W_v\nx = W_v", "if W_c:\n    W_a\n    W_b\nelse:\n    W_b\n    W_a",
    "if W_c:\n    WS_a\nelse:\n    WS_b", "def W_f(W_a):\n    WS_body", "for W_i in W_r:\n    WP_body", "x += W_v",
    "x = y = W_v", "return_ = W_a + W_b", "W_t = W_v\nANYQ\nW_u = W_v", "return W_x", "return",
]


def ob_tree(pattern, source, kind):
    """match_template on the whole source tree (expr or stmt list) and finditer's occurrence set."""
    import z3
    from vk import instrument, markers, sym
    from pyrefact import core, pattern_matching

    pyre = to_pyrefact_pattern(pattern)
    used = markers.markers_in(source + "\n" + pattern)
    notes = {}

    def harness(eng):
        markers.declare(eng, used)
        tab = eng.path_state["markers"].tab
        # ---- reference side: own parse of the mini-syntax
        if kind == "expr":
            pat_ref = _seed(ast.parse(pattern, mode="eval"), tab).body
            src_tree_ref = _seed(ast.parse(source), tab)
        else:
            body = _seed(ast.parse(pattern), tab).body
            pat_ref = body if len(body) > 1 else body[0]
            if isinstance(pat_ref, ast.Expr) and _wc(pat_ref) is None:
                pat_ref = pat_ref.value
            src_tree_ref = _seed(ast.parse(source), tab)
        # ---- real side
        try:
            template = core.compile_template(pyre)
        except Exception as e:  # noqa: BLE001
            notes["compile_error"] = repr(e)[:200]
            eng.claim(True)
            return
        src_text = source if source.endswith("\n") else source + "\n"
        occurrences = list(pattern_matching.finditer(pyre, src_text))
        # candidates for the reference: every node (expr / stmt pattern) or every window (sequence pattern)
        want = []  # (position key, formula)
        if isinstance(pat_ref, list):
            k = len([p for p in pat_ref])
            for holder in ast.walk(src_tree_ref):
                if not isinstance(holder, (ast.Module, ast.FunctionDef, ast.AsyncFunctionDef, ast.ClassDef, ast.If,
                                           ast.For, ast.While, ast.With)):
                    continue
                for bodyname in ("body", "orelse"):
                    body = getattr(holder, bodyname, None)
                    if not isinstance(body, list) or not body:
                        continue
                    if bodyname == "orelse" and not isinstance(holder, (ast.If, ast.For, ast.While)):
                        continue
                    quantified = any((_wc(p) or ("one",))[0] != "one" for p in pat_ref)
                    if quantified:
                        continue  # statement-sequence patterns with quantifiers: semantics of the search window
                        # (expand_first/expand_last) is not part of the statement; only fixed windows are compared
                    for i in range(0, len(body) - k + 1):
                        win = body[i:i + k]
                        f = (ref_match(pat_ref, win), ref_match(pat_ref, win, strict=True))
                        want.append(((win[0].lineno, win[0].col_offset, win[-1].end_lineno, win[-1].end_col_offset), f))
            if any((_wc(p) or ("one",))[0] != "one" for p in pat_ref):
                eng.claim(True)
                return
        else:
            for node in ast.walk(src_tree_ref):
                if not hasattr(node, "lineno"):
                    continue
                if isinstance(pat_ref, ast.stmt) != isinstance(node, ast.stmt):
                    if not (_wc(pat_ref) and isinstance(node, (ast.expr, ast.stmt))):
                        continue
                if isinstance(pat_ref, ast.expr) and not isinstance(node, ast.expr):
                    continue
                f = (ref_match(pat_ref, node), ref_match(pat_ref, node, strict=True))
                want.append(((node.lineno, node.col_offset, node.end_lineno, node.end_col_offset, type(node).__name__), f))
        got_keys = []
        for m in occurrences:
            roots = m.groups[0] if not isinstance(m.groups[0], (list, tuple)) else m.groups[0]
            r = m.groups[0]
            if isinstance(pat_ref, list):
                got_keys.append(("span", m.span.start if not sym.is_sym(m.span.start) else None, m.span.end))
            else:
                got_keys.append((r.lineno, r.col_offset, r.end_lineno, r.end_col_offset, type(r).__name__))
        if isinstance(pat_ref, list):
            # compare by character span computed independently from line/column
            lines = src_text.splitlines(keepends=True)
            starts = [0]
            for ln in lines:
                starts.append(starts[-1] + len(ln))
            conv = []
            for (l0, c0, l1, c1), f in want:
                conv.append((("span", starts[l0 - 1] + c0, starts[l1 - 1] + c1), f))
            want = conv
        got_set = set(got_keys)
        for key, (loose, strict) in want:
            present = key in got_set
            f = loose if present else strict  # reported => loose reading holds; strict reading holds => reported
            if f is True or f is False:
                eng.claim(present == f, info={"what": "occurrence", "at": key, "reported": present})
            else:
                eng.claim(f if present else z3.Not(f), info={"what": "occurrence", "at": key, "reported": present})
        want_keys = {k for k, _f in want}
        extra = [k for k in got_keys if k not in want_keys]
        eng.claim(not extra, info={"what": "reported something that is no candidate", "extra": extra})
        eng.claim(len(got_keys) == len(got_set), info={"what": "duplicate occurrences"})
        # findall / search coherence with finditer (C13-c uses these too)
        fa = pattern_matching.findall(pyre, src_text)
        eng.claim(fa == [m.string for m in occurrences], info={"what": "findall != texts of finditer"})

    eng = sym.Engine(budget_s=60, max_cex=3)
    eng.path_hooks.append(instrument.reset_caches)
    res = eng.explore(harness)
    d = res.as_dict()
    d["notes"] = notes
    return d


def ob_self_match(source, kind):
    """Every piece of code matches itself (node against itself, and as a pattern against its own source)."""
    from vk import instrument, markers, sym
    from pyrefact import core, pattern_matching

    used = markers.markers_in(source)

    def harness(eng):
        markers.declare(eng, used)
        text = source if source.endswith("\n") else source + "\n"
        tree = core.parse(text)
        bad = []
        for node in ast.walk(tree):
            if isinstance(node, (ast.expr, ast.stmt)):
                if not core.match_template(node, node):
                    bad.append(ast.dump(node)[:80])
        eng.claim(not bad, info={"what": "node does not match itself", "nodes": bad[:3]})
        found = pattern_matching.findall(text.strip("\n"), text)
        eng.claim(len(found) >= 1, info={"what": "source not found in itself"})

    eng = sym.Engine(budget_s=60, max_cex=2)
    eng.path_hooks.append(instrument.reset_caches)
    return eng.explore(harness)


def ob_tree_batch(batch):
    agg = {"status": "confirmed", "paths": 0, "branches": 0, "checks": 0, "solver_s": 0.0, "claims": 0, "cexs": [],
           "inconclusive": [], "compile_errors": 0}
    for job in batch:
        if job[0] == "self":
            d = ob_self_match(job[1], job[2]).as_dict()
        else:
            d = ob_tree(job[1], job[2], job[3])
        for k in ("paths", "branches", "checks", "claims"):
            agg[k] += d[k]
        agg["solver_s"] += d["solver_s"]
        from vk import sym as _sym
        _sym.merge_xcheck(agg, d)
        if d.get("notes", {}).get("compile_error"):
            agg["compile_errors"] += 1
        for c in d["cexs"]:
            c["job"] = list(job)
            agg["cexs"].append(c)
        agg["inconclusive"] += ["%s: %s" % (job, x) for x in d["inconclusive"]]
    if agg["cexs"]:
        agg["status"] = "refuted"
    elif agg["inconclusive"]:
        agg["status"] = "inconclusive"
    return agg


# ----------------------------------------------------------------------------------------------------


def obligations(tier, seed):
    from vk.common import Obligation

    rnd = random.Random(seed)
    quick = tier == "quick"
    maxlen, maxn = (3, 4) if quick else (4, 6)
    jobs = []
    plain = [(k, p) for k in ("one", "opt", "star", "plus") for p in (0, 1)]
    for L in range(0, maxlen + 1):
        for items in itertools.product(plain, repeat=L):
            for n in range(0, maxn + 1):
                jobs.append((list(items), n, True))
    named = _items(["x", "y", "_"])
    wl = []
    for L in range(1, maxlen + 1):
        for items in itertools.product(named, repeat=L):
            if not any(isinstance(p, str) for _k, p in items):
                continue
            for n in range(0, min(maxn, 4) + 1):
                wl.append((list(items), n, False))
    jobs += wl if not quick else rnd.sample(wl, 2500)
    if not quick and len(jobs) > 60000:
        jobs = jobs[: len(jobs) - len(wl)] + rnd.sample(wl, 40000)
    obs = []
    B = 60
    rnd.shuffle(jobs)
    for i in range(0, len(jobs), B):
        chunk = jobs[i:i + B]
        obs.append(Obligation("list-batch/%d" % (i // B), ob_list_batch, {"batch": chunk}, hard_timeout=900,
                              sample={"template": chunk[0][0], "word_length": chunk[0][1]}))
    tjobs = []
    for p in EXPR_PATTERNS:
        for s in EXPR_SOURCES:
            tjobs.append(("tree", p, s, "expr"))
    for p in STMT_PATTERNS:
        for s in STMT_SOURCES:
            tjobs.append(("tree", p, s, "stmt"))
    for s in EXPR_SOURCES:
        tjobs.append(("self", s, "expr"))
    for s in STMT_SOURCES:
        tjobs.append(("self", s, "stmt"))
    if quick:
        tjobs = rnd.sample(tjobs, 1200)
    B = 30
    for i in range(0, len(tjobs), B):
        chunk = tjobs[i:i + B]
        obs.append(Obligation("tree-batch/%d" % (i // B), ob_tree_batch, {"batch": chunk}, hard_timeout=900,
                              sample={"pattern": chunk[0][1], "source": chunk[0][2] if len(chunk[0]) > 2 else None}))
    return obs


def case_of(ob, r, cex):
    if "items" in cex:
        word = [cex["model"].get("w%d" % i, 0) for i in range(cex["n"])]
        return {"kind": "list", "items": cex["items"], "word": word, "info": cex.get("info"),
                "key": "list:%s|n=%d" % (_show(cex["items"]), cex["n"])}
    job = cex["job"]
    what = (cex.get("info") or {}).get("what", "?")
    return {"kind": "tree", "job": job, "model": cex["model"], "info": cex.get("info"),
            "key": "tree:%s|%s" % ("/".join(str(x) for x in job[:3]), what)}


def _show(items):
    q = {"one": "", "opt": "?", "star": "*", "plus": "+"}
    return "[" + ",".join("%s%s" % (p, q[k]) for k, p in items) + "]"


def _conc_spec_list(items, word, strict=False):
    n = len(word)
    for counts in _segmentations([tuple(i) for i in items], n):
        pos, ok, bound = 0, True, {}
        for (kind, p), c in zip(items, counts):
            seg = word[pos:pos + c]
            pos += c
            if isinstance(p, int):
                ok = ok and all(l == p for l in seg)
            elif p != "_" and (kind == "one" or strict):
                bound.setdefault(p, []).extend(seg)
        ok = ok and all(len(set(v)) <= 1 for v in bound.values())
        if ok:
            return True
    return False


def replay(case):
    from pyrefact import core, pattern_matching

    if case["kind"] == "list":
        items = [tuple(i) for i in case["items"]]
        word = list(case["word"])
        template = _mk_template(core, items)
        got = bool(core.match_template(word, template))
        loose, strict = _conc_spec_list(items, word), _conc_spec_list(items, word, strict=True)
        bad = (got and not loose) or (strict and not got)
        return {"reproduced": bad,
                "detail": "match_template(%s, %s) = %s; regular-expression reading: %s (named quantified wildcards "
                          "as back-references: %s)" % (word, _show(items), got, loose, strict)}
    from vk import markers

    job = case["job"]
    values = {int(k[1:]): v for k, v in case["model"].items() if k.startswith("c") and k[1:].isdigit()}
    if job[0] == "self":
        text = markers.substitute(job[1], values)
        text = text if text.endswith("\n") else text + "\n"
        tree = ast.parse(text)
        bad = [ast.dump(n)[:60] for n in ast.walk(tree) if isinstance(n, (ast.expr, ast.stmt)) and not core.match_template(n, n)]
        found = pattern_matching.findall(text.strip("\n"), text)
        return {"reproduced": bool(bad) or not found, "detail": "self-match of %r: non-matching nodes %s, findall %s" % (text, bad[:2], found)}
    _t, pattern, source, kind = job
    pat_c = markers.substitute(pattern, values)
    src_c = markers.substitute(source, values)
    src_c = src_c if src_c.endswith("\n") else src_c + "\n"
    pyre = to_pyrefact_pattern(pat_c)
    occ = list(pattern_matching.finditer(pyre, src_c))
    # reference on the concrete trees
    if kind == "expr":
        pat_ref = ast.parse(pat_c, mode="eval").body
    else:
        body = ast.parse(pat_c).body
        pat_ref = body if len(body) > 1 else body[0]
        if isinstance(pat_ref, ast.Expr) and _wc(pat_ref) is None:
            pat_ref = pat_ref.value
    tree = ast.parse(src_c)
    want = set()
    must = set()
    cands = set()
    if isinstance(pat_ref, list):
        lines = src_c.splitlines(keepends=True)
        starts = [0]
        for ln in lines:
            starts.append(starts[-1] + len(ln))
        k = len(pat_ref)
        for holder in ast.walk(tree):
            if not isinstance(holder, (ast.Module, ast.FunctionDef, ast.AsyncFunctionDef, ast.ClassDef, ast.If, ast.For,
                                       ast.While, ast.With)):
                continue
            for bodyname in ("body", "orelse"):
                body = getattr(holder, bodyname, None)
                if not isinstance(body, list) or not body:
                    continue
                if bodyname == "orelse" and not isinstance(holder, (ast.If, ast.For, ast.While)):
                    continue
                for i in range(0, len(body) - k + 1):
                    win = body[i:i + k]
                    key = ("span", starts[win[0].lineno - 1] + win[0].col_offset, starts[win[-1].end_lineno - 1] + win[-1].end_col_offset)
                    cands.add(key)
                    if ref_match(pat_ref, win) is True:
                        want.add(key)
                    if ref_match(pat_ref, win, strict=True) is True:
                        must.add(key)
        got = [("span", m.span.start, m.span.end) for m in occ]
    else:
        for node in ast.walk(tree):
            if not hasattr(node, "lineno"):
                continue
            if isinstance(pat_ref, ast.stmt) != isinstance(node, ast.stmt):
                if not (_wc(pat_ref) and isinstance(node, (ast.expr, ast.stmt))):
                    continue
            if isinstance(pat_ref, ast.expr) and not isinstance(node, ast.expr):
                continue
            key = (node.lineno, node.col_offset, node.end_lineno, node.end_col_offset, type(node).__name__)
            cands.add(key)
            if ref_match(pat_ref, node) is True:
                want.add(key)
            if ref_match(pat_ref, node, strict=True) is True:
                must.add(key)
        got = [(m.groups[0].lineno, m.groups[0].col_offset, m.groups[0].end_lineno, m.groups[0].end_col_offset,
                type(m.groups[0]).__name__) for m in occ]
    fa = pattern_matching.findall(pyre, src_c)
    bad = (not set(got) <= want) or (not must <= set(got)) or len(got) != len(set(got)) or fa != [m.string for m in occ]
    return {"reproduced": bad,
            "detail": "pattern %r on %r: finditer reports %s, reference matcher: %s (at least %s); findall=%s" % (
                pyre, src_c, sorted(got), sorted(want), sorted(must), fa)}
