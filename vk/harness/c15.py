"""C15 - compile-time constant evaluation agrees with Python.

The real `core.literal_value` is run on expression trees whose integer / boolean leaves are
solver variables; the oracle is Python's own evaluation of the same expression over the same
proxies. Per path: literal_value returns v  =>  Python returns a value of the same type equal to v;
Python raises or the evaluation has an external effect  =>  literal_value raises ValueError;
literal_value never raises anything else and never invokes an effectful builtin."""
from __future__ import annotations

import ast
import itertools
import random

PROPERTY = "C15"
LEVEL = "model_checking"
ENCODED = ["pyrefact.core:literal_value", "pyrefact.core:has_side_effect", "pyrefact.core:match_template",
           "pyrefact.symbolic_math:simplify_boolean_expressions", "pyrefact.fixes:remove_redundant_boolop_values",
           "pyrefact.fixes:remove_dead_ifs"]
STUBS = ["effectful builtins (print input open exec eval compile exit quit breakpoint help __import__ setattr "
         "delattr globals locals) are recording stubs in the instrumented module global `builtins`: a recorded call "
         "is the violation 'evaluation has effects'"]
ASSUMPTIONS = [
    "integer leaves range over all integers (LIA); when an operator needs a concrete operand (sequence repetition, "
    "**, shifts, bit operations, range, str/int conversion) the obligation is re-run with leaves in -3..6 and says so",
    "floats appear only as results of `/` and as the concrete leaf 1.5; they are modelled as reals",
    "identity tests between non-singleton literals are outside the claim (statement)",
]
OUTSIDE = ["expressions deeper than the bound", "string / container leaves are concrete"]

INT_LEAVES = ["i0", "i1", "i2"]
BOOL_LEAVES = ["b0", "b1"]
CONCRETE = ["0", "1", "2", "-1", "1.5", "''", "'ab'", "[]", "[1, 2]", "(1, 2)", "None", "True", "False", "{}"]
UNARY = ["-%s", "+%s", "not %s", "~%s"]
BINARY = ["+", "-", "*", "/", "//", "%", "**", "<<", ">>", "&", "|", "^", "@"]
COMPARE = ["<", "<=", ">", ">=", "==", "!=", "in", "not in", "is", "is not"]
CALLS1 = ["len", "abs", "min", "max", "sum", "int", "bool", "str", "sorted", "any", "all", "range", "list",
          "tuple", "float", "round", "repr", "set", "reversed", "type", "callable", "chr", "bin"]
EFFECTFUL = ["print(%s)", "input()", "exit()", "quit()", "open(%s)", "exec('1')", "eval('1')", "globals()",
             "locals()", "breakpoint()", "__import__('os')", "hash('ab')", "id(%s)", "setattr(%s, 'a', 1)",
             "compile('1', 'f', 'eval')", "help()", "vars()", "dir()", "print()", "print(%s) or 1", "exit(%s)"]
SINGLETONS = {"None", "True", "False", "b0", "b1"}


def bounds(tier):
    return {"consumer_programs": "every comparison of two constants from 16 literal kinds (ints symbolic) in seven "
            "positions of a closed program, through three folding rules and the pipeline (quick: fixed core + 120 sampled)",
            "expression_depth": 2 if tier == "quick" else 3, "int_leaves": "all integers (symbolic); -3..6 in the "
            "bounded regime", "exponents_shifts": "-3..6", "depth2_sample": 3000 if tier == "quick" else 60000}


def _leaf_pool(i, b):
    return [INT_LEAVES[i % 3], BOOL_LEAVES[b % 2]]


def depth1():
    L = ["i0", "b0"] + CONCRETE
    L2 = ["i1", "b1"] + CONCRETE
    out = []
    for u in UNARY:
        for a in L:
            out.append(u % a)
    for op in BINARY:
        for a, b in itertools.product(L, L2):
            out.append("%s %s %s" % (a, op, b))
    for op in COMPARE:
        for a, b in itertools.product(L, L2):
            if op in ("is", "is not") and not (a in SINGLETONS or b in SINGLETONS):
                continue  # implementation-defined identity: outside the claim
            out.append("%s %s %s" % (a, op, b))
    for op in ("and", "or"):
        for a, b in itertools.product(L, L2):
            out.append("%s %s %s" % (a, op, b))
    for a, b, c in itertools.product(["i0", "b0", "0", "''", "None", "[1, 2]"], ["i1", "'ab'", "1"], ["i2", "b1", "[]"]):
        out.append("%s if %s else %s" % (b, a, c))
        out.append("%s < %s < %s" % (a, b, c))
        out.append("%s and %s or %s" % (a, b, c))
    for f in CALLS1:
        for a in L:
            out.append("%s(%s)" % (f, a))
        out.append("%s()" % f)
        out.append("%s(i0, i1)" % f)
        out.append("%s([i0, i1])" % f)
        out.append("%s((i0, b0, 2))" % f)
        out.append("%s(i0, 2, i1)" % f)
    for e in EFFECTFUL:
        for a in ("i0", "'ab'"):
            out.append(e % a if "%s" in e else e)
    out += ["'ab'.upper()", "''.join(('1', '2'))", "'a b'.split()", "'ab'.count('a')", "'ab'.startswith('a')",
            "'ab'.zfill(i0)", "'ab'.center(i0)", "'a'.join(['x', 'y'])", "(1).bit_length()", "'%d' % i0",
            "'ab'[i0]", "[1, 2][i0]", "(1, 2)[b0]", "{1: 2}[i0]", "[i0, i1]", "(i0, b0)", "{i0: i1}", "{i0, i1}",
            "-i0", "- - i0", "i0 + 1j", "f'{i0}'", "(lambda: 1)()", "[x for x in (1, 2)]", "i0 if b0 else i1",
            "sum([i0], start=i1)", "sum([1], start=5)", "int('11', base=2)", "sorted([i0, i1], reverse=True)", "max([], default=i0)",
            "max([i0, i1], key=abs)", "min([i0], default=1)", "round(7, ndigits=-1)", "str(b'a', encoding='utf8')", "list(iterable=[1])",
            "bool(x=1)", "dict(a=i0)", "enumerate([i0], start=i1)", "int(x='3')", "pow(i0, 2, mod=5)", "len(obj=[1])", "range(stop=3)",
            "zip()", "zip([1, 2], [])", "reversed([])", "enumerate(())", "iter('')", "filter(None, [0, ''])", "map(abs, [])",
            "x", "x + 1", "f(1)", "i0.real", "'ab'.encode()", "b'ab'", "...", "1 if i0 else 1 / 0",
            "len('ab') or 1", "max(i0, i1) > min(i0, i1)", "abs(i0) >= 0", "sum([i0, i1, i2]) == i0 + i1 + i2",
            "i0 // i1 * i1 + i0 % i1 == i0", "divmod(i0, i1)", "pow(i0, 2)", "pow(2, i0)", "round(i0 / i1)",
            "sorted([i0, i1, i2])", "min([i0, i1], default=0)", "int('12')", "int('x')", "str(12)", "len(range(i0))",
            "list(range(i0, i1))", "any([i0, b0])", "all([i0, b0])", "bool(i0) == (i0 != 0)", "not not i0",
            "i0 == i0", "i0 != i0", "i0 < i0 + 1", "i0 * 0", "i0 ** 0", "0 ** i0", "i0 / i0", "i0 % 1", "b0 + b1",
            "b0 * i0", "-b0", "~b0", "b0 < b1", "b0 and b1 or not b0", "True + True", "None is None",
            "None == None", "i0 is None", "b0 is True", "b0 is not False", "[] is None", "() == ()", "[] == ()",
            "1 == 1.0", "True == 1", "i0 == b0", "1.5 > i0", "i0 in [i1, i2]", "i0 in (1, 2, 3)", "i0 not in ()",
            "'a' in 'ab'", "1 in 'ab'", "i0 in 'ab'", "None in [None]", "[1, 2] + [i0]", "(1,) * i0", "'ab' * i0",
            "[i0] * 2 == [i0, i0]", "2 ** i0", "2 ** -1", "i0 ** -1", "0 ** -1", "1 << i0", "i0 >> 1", "1 << -1",
            "i0 & 1", "i0 | i1", "i0 ^ i0", "6 // 4", "-7 // 2", "-7 % 3", "7 % -3", "i0 // -2", "i0 % -2",
            "1 / 2", "i0 / 2", "1 // 0", "1 % 0", "1 / 0", "i0 / 0", "0 / i0", "i0 // (i1 - i1)"]
    seen, res = set(), []
    for e in out:
        if e not in seen:
            seen.add(e)
            res.append(e)
    return res


def depth2(rnd, n, base):
    """op(depth1, leaf) / op(leaf, depth1) / call(depth1) combinations, sampled."""
    L = ["i2", "b1", "0", "1", "'ab'", "[]", "None", "[1, 2]"]
    out = set()
    tries = 0
    while len(out) < n and tries < 50 * n:
        tries += 1
        a = "(%s)" % rnd.choice(base)
        k = rnd.randrange(8)
        b = rnd.choice(L) if rnd.random() < 0.7 else "(%s)" % rnd.choice(base)
        if k == 0:
            e = rnd.choice(UNARY) % a
        elif k in (1, 2):
            op = rnd.choice(BINARY)
            e = "%s %s %s" % ((a, op, b) if rnd.random() < 0.5 else (b, op, a))
        elif k == 3:
            op = rnd.choice(COMPARE[:8])
            e = "%s %s %s" % ((a, op, b) if rnd.random() < 0.5 else (b, op, a))
        elif k == 4:
            e = "%s %s %s" % (a, rnd.choice(["and", "or"]), b)
        elif k == 5:
            e = "%s if %s else %s" % (b, a, rnd.choice(L))
        elif k == 6:
            e = "%s(%s)" % (rnd.choice(CALLS1), a)
        else:
            e = "%s < %s <= %s" % (rnd.choice(L), a, b)
        try:
            ast.parse(e, mode="eval")
        except SyntaxError:
            continue
        if " is " in e:
            continue
        out.add(e)
    return sorted(out)


def _holes(expr):
    tree = ast.parse(expr, mode="eval")
    return tree, sorted({n.id for n in ast.walk(tree) if isinstance(n, ast.Name) and n.id in INT_LEAVES + BOOL_LEAVES})


class _Effect(Exception):
    pass


def _oracle_builtins():
    from vk import symtv

    rec = symtv.Recorder()
    b = symtv.make_builtins(rec, 10**6)
    for name in ("print input open exec eval compile exit quit breakpoint help __import__ setattr delattr globals "
                 "locals vars dir id hash").split():
        def eff(*a, _n=name, **k):
            raise _Effect(_n)
        b[name] = eff
    return b


def _fill(tree, env):
    class T(ast.NodeTransformer):
        def visit_Name(self, node):
            if node.id in env:
                return ast.copy_location(ast.Constant(value=env[node.id]), node)
            return node
    return T().visit(tree)


def ob_expr(expr, bounded=False, budget_s=8.0):
    import z3
    from vk import instrument, sym
    from pyrefact import core

    tree0, holes = _holes(expr)
    from vk import symtv as _symtv

    code = _symtv.compile_expr(expr)
    saved_hook = sym.SymInt.repr_hook
    sym.SymInt.repr_hook = None  # str()/repr() of a symbolic int concretises (no markers in this harness)

    def harness(eng):
        env = {}
        for h in holes:
            if h.startswith("i"):
                v = eng.var(h)
                if bounded:
                    eng.require(z3.And(v >= -3, v <= 6))
                env[h] = sym.SymInt(v)
            else:
                env[h] = sym.SymBool(eng.var(h, "bool"))
        node = _fill(ast.parse(expr, mode="eval"), env).body
        del instrument.EFFECT_LOG[:]
        lv_exc = None
        try:
            lv = core.literal_value(node)
        except ValueError:
            lv_exc = "ValueError"
        except RecursionError:
            lv_exc = "RecursionError"
        except Exception as e:  # noqa: BLE001
            lv_exc = type(e).__name__
        effects = list(instrument.EFFECT_LOG)
        if effects:
            eng.claim(False, info={"what": "evaluation has effects", "effects": effects})
            return
        if lv_exc not in (None, "ValueError"):
            eng.claim(False, info={"what": "raises", "exception": lv_exc})
            return
        if lv_exc == "ValueError":
            eng.claim(True)
            return
        g = {"__builtins__": _oracle_builtins()}
        g.update(env)
        try:
            pv = eval(code, g)
            if hasattr(pv, "__next__") or isinstance(pv, (map, filter, zip)):
                raise sym.Unsupported("iterator result")
        except _Effect as e:
            eng.claim(False, info={"what": "treated as a value although evaluation has effects", "effect": str(e)})
            return
        except Exception as e:  # noqa: BLE001
            eng.claim(False, info={"what": "value for an expression that raises", "python": type(e).__name__})
            return
        from vk.symtv import _snapshot

        eng.claim(sym.same(_snapshot(lv), _snapshot(pv)),
                  info=lambda m, lv=lv, pv=pv: {"what": "value", "literal_value": repr(sym.concretize(_snapshot(lv), m)),
                                                 "python": repr(sym.concretize(_snapshot(pv), m))})

    try:
        eng = sym.Engine(budget_s=budget_s, max_paths=3000, max_cex=3)
        eng.path_hooks.append(instrument.reset_caches)
        res = eng.explore(harness)
    finally:
        sym.SymInt.repr_hook = saved_hook
    d = res.as_dict()
    if d["status"] == "inconclusive" and not bounded:
        d2 = ob_expr(expr, bounded=True, budget_s=budget_s * 2)
        d2["notes"] = {"regime": "bounded -3..6 (unbounded run: %s)" % d["inconclusive"][:1]}
        return d2
    d["notes"] = {"regime": "bounded -3..6" if bounded else "unbounded"}
    return d


# ----------------------------------------------------------------------------------------------------
# consumers: the rules that fold a condition / drop an operand *because of* a constant value. The constant
# expression sits in a closed program next to a run-time input (so the consumer cannot fold the whole condition away
# through another route), integer constants are marker literals (symbolic while the rule runs and while both programs
# are executed), the other constants are the literal kinds on which comparison is not a total order (sets, NaN,
# mixed numeric / string / None operands). Decided by symbolic translation validation (pool.ob_tv).
FOLD_LEAVES = ["7000", "7001", "1", "1.5", "0.0", "True", "'ab'", "'a'", "{1, 2}", "{2, 3}", "{1}", "frozenset({1})",
               "float('nan')", "(1, 2)", "[1, 2]", "None"]
FOLD_OPS = ["<", "<=", ">", ">=", "==", "!=", "in", "not in"]
FOLD_TRANSFORMS = ["rule:symbolic_math.simplify_boolean_expressions", "rule:fixes.remove_redundant_boolop_values",
                   "rule:fixes.remove_dead_ifs", "format_code:safe=0"]
FOLD_CORE = [("{1, 2}", "{2, 3}"), ("{2, 3}", "{1, 2}"), ("{1}", "{1, 2}"), ("{1, 2}", "{1}"), ("frozenset({1})", "{2, 3}"),
             ("float('nan')", "0.0"), ("1.5", "float('nan')"), ("float('nan')", "float('nan')"), ("7000", "7001"),
             ("7000", "1.5"), ("True", "1"), ("1", "True"), ("'a'", "'ab'"), ("(1, 2)", "[1, 2]"), ("None", "None"),
             ("1", "{1, 2}"), ("'a'", "'ab'"), ("7000", "(1, 2)"), ("1", "[1, 2]"), ("0.0", "1")]
FOLD_BODY = """
def main(v, w):
    out = []
    if v > 0 and (EXPR):
        out.append("and")
    if v > 0 or (EXPR):
        out.append("or")
    if w > 0 and not (EXPR):
        out.append("and-not")
    flag = (EXPR)
    out.append(flag)
    out.append(1 if (EXPR) else 2)
    out.append([x for x in (v, w) if (EXPR)])
    while (EXPR):
        out.append("loop")
        break
    return out


print(main(inp(), inp()))
"""


def fold_expressions():
    out = []
    for op in FOLD_OPS:
        for a in FOLD_LEAVES:
            for b in FOLD_LEAVES:
                out.append(("%s %s %s" % (a, op, b), (a, b) in FOLD_CORE))
    for a in FOLD_LEAVES:
        out.append(("not %s" % a, True))
        out.append(("bool(%s)" % a, False))
        out.append(("len(%s) > 7000" % a, False))
    # comparisons of run-time values with themselves / each other (folded by text, not by value)
    out += [("v == v", True), ("v != v", True), ("v == w", True), ("v <= v", True), ("v < v", True), ("v is v", True),
            ("(v, w) == (v, w)", True), ("v + 1 == v + 1", True), ("v == v == w", True), ("not v == v", True),
            ("[v][0] == [v][0]", True), ("v.real == v.real", True), ("v == 7000", True), ("7000 == v", True)]
    out += [("7000 < 7001 < 7002", True), ("7000 <= 7001 > 7002", True), ("7000 == 7001 != 7002", True),
            ("{1} <= {1, 2} <= {3}", True), ("1 < float('nan') < 3", True), ("abs(7000 - 7001) >= 0", True),
            ("max(7000, 7001) >= min(7000, 7001)", True), ("sum([7000, 7001]) == 7000 + 7001", True),
            ("7000 in (7001, 1)", True), ("7000 // 7001 >= 0", True),
            ("7000 % 7001 < 7001", True), ("7000 / 7001 <= 1", True), ("-7000 <= 7001", True), ("7000 - 7001 > 0", True),
            ("7000 * 7001 >= 7000", True), ("'a' * 7000 == ''", True), ("len('ab' * 7000) == 2 * 7000", True)]
    return out


def fold_skeleton(expr):
    from vk.pool import Skeleton
    from vk.symtv import prelude

    return Skeleton("fold/%s" % expr, prelude(4) + FOLD_BODY.replace("EXPR", expr).lstrip("\n"), tape=4, fuel=300)


def fold_obligations(tier, rnd):
    from vk import pool
    from vk.common import Obligation

    exprs = fold_expressions()
    core = [e for e, c in exprs if c]
    rest = [e for e, c in exprs if not c]
    chosen = core + (rnd.sample(rest, 120) if tier == "quick" else rest)
    obs = []
    for e in chosen:
        sk = fold_skeleton(e)
        for tr in (FOLD_TRANSFORMS if (tier != "quick" or e in core) else FOLD_TRANSFORMS[:1] + FOLD_TRANSFORMS[3:]):
            obs.append(Obligation("fold/%s/%s" % (tr.split(":")[1].split(".")[-1], e), pool.ob_tv,
                                  dict(skeleton=sk.to_json(), transform=tr, budget_s=40.0, max_cex=3, max_paths=400),
                                  hard_timeout=90, sample={"expression": e, "transform": tr}))
    return obs


def obligations(tier, seed):
    from vk.common import Obligation

    rnd = random.Random(seed)
    base = depth1()
    exprs = list(base)
    exprs += depth2(rnd, 3000 if tier == "quick" else 60000, base)
    # batch to amortise process overhead
    obs = []
    B = 25
    for i in range(0, len(exprs), B):
        chunk = exprs[i:i + B]
        obs.append(Obligation("expr-batch/%d" % (i // B), ob_batch, {"exprs": chunk}, hard_timeout=60 * len(chunk),
                              sample={"expressions": chunk[:5]}))
    return obs + fold_obligations(tier, rnd)


def ob_batch(exprs):
    agg = {"status": "confirmed", "paths": 0, "branches": 0, "checks": 0, "solver_s": 0.0, "concretisations": 0,
           "claims": 0, "cexs": [], "inconclusive": [], "per_expr": {}}
    for e in exprs:
        try:
            d = ob_expr(e)
        except SyntaxError:
            continue
        for k in ("paths", "branches", "checks", "concretisations", "claims"):
            agg[k] += d.get(k, 0)
        agg["solver_s"] += d.get("solver_s", 0.0)
        from vk import sym as _sym
        _sym.merge_xcheck(agg, d)
        for c in d.get("cexs", []):
            c["expr"] = e
            agg["cexs"].append(c)
        if d["status"] == "inconclusive":
            agg["inconclusive"].append("%s: %s" % (e, d["inconclusive"][:1]))
        agg["per_expr"][e] = d["status"]
    if agg["cexs"]:
        agg["status"] = "refuted"
    elif agg["inconclusive"]:
        agg["status"] = "inconclusive"
    agg["per_expr"] = {k: v for k, v in agg["per_expr"].items() if v != "confirmed"}
    return agg


def case_of(ob, r, cex):
    if ob.oid.startswith("fold/"):
        from vk import pool

        return pool.tv_case(ob, r, cex)
    info = cex.get("info") or {}
    what = info.get("what", "?")
    region = what if what != "raises" else "raises:%s" % info.get("exception")
    return {"kind": "expr", "expr": cex["expr"], "model": cex["model"], "info": info,
            "key": "expr:%s|%s" % (cex["expr"], region)}


def replay(case):
    """Real literal_value on the expression with the model's values as ordinary literals, versus eval()."""
    import builtins
    import contextlib
    import io

    if case.get("kind") == "tv":
        from vk import pool

        return pool.tv_replay(case)
    from pyrefact import core

    expr, model = case["expr"], case["model"]
    env = {}
    for h in INT_LEAVES:
        env[h] = int(model.get(h, 0)) if not isinstance(model.get(h), str) else 0
    for h in BOOL_LEAVES:
        env[h] = bool(model.get(h, False))
    # write the values into the expression text as literals (negative ints become UnaryOp, as in source code)
    class T(ast.NodeTransformer):
        def visit_Name(self, node):
            if node.id in env:
                v = env[node.id]
                new = ast.parse(repr(v), mode="eval").body
                return ast.copy_location(new, node)
            return node

    tree = T().visit(ast.parse(expr, mode="eval"))
    ast.fix_missing_locations(tree)
    text = ast.unparse(tree)
    node = ast.parse(text, mode="eval").body
    effects = []
    names = "print input open exec eval compile exit quit breakpoint help __import__ setattr delattr globals locals".split()
    saved = {n: getattr(builtins, n) for n in names}

    def mk(n):
        def rec(*a, **k):
            effects.append(n)
            raise ValueError("effect " + n)
        return rec

    lv_exc = lv = None
    try:
        for n in names:
            if n not in ("compile", "exec", "eval", "__import__", "globals", "locals", "setattr", "delattr"):
                setattr(builtins, n, mk(n))
        # the remaining ones are needed by the interpreter itself; wrap only the lookup pyrefact performs
        try:
            with contextlib.redirect_stdout(io.StringIO()):
                lv = core.literal_value(node)
        except ValueError:
            lv_exc = "ValueError"
        except BaseException as e:  # noqa: BLE001
            lv_exc = type(e).__name__
    finally:
        for n, f in saved.items():
            setattr(builtins, n, f)
    if effects:
        return {"reproduced": True, "key": "expr:%s|evaluation has effects" % expr,
                "detail": "literal_value(%s) invoked %s while refactoring" % (text, effects)}
    if lv_exc not in (None, "ValueError"):
        return {"reproduced": True, "key": "expr:%s|raises:%s" % (expr, lv_exc),
                "detail": "literal_value(%s) raised %s (only ValueError may signal 'unknown')" % (text, lv_exc)}
    if lv_exc == "ValueError":
        return {"reproduced": False, "detail": "literal_value(%s) -> ValueError (unknown)" % text}
    effectful = any(isinstance(n, ast.Call) and isinstance(n.func, ast.Name) and n.func.id in names + ["hash", "id", "vars", "dir"]
                    for n in ast.walk(node))
    if effectful:
        return {"reproduced": True, "key": "expr:%s|treated as a value although evaluation has effects" % expr,
                "detail": "literal_value(%s) = %r although evaluating it has external effects / is not deterministic" % (text, lv)}
    try:
        with contextlib.redirect_stdout(io.StringIO()):
            pv = eval(compile(ast.parse(text, mode="eval"), "<e>", "eval"), {})
    except Exception as e:  # noqa: BLE001
        return {"reproduced": True, "key": "expr:%s|value for an expression that raises" % expr,
                "detail": "literal_value(%s) = %r but Python raises %s" % (text, lv, type(e).__name__)}
    same = type(lv) is type(pv) and (lv == pv or (lv != lv and pv != pv))
    if isinstance(lv, (range,)):
        same = type(pv) is range and list(lv) == list(pv)
    return {"reproduced": not same, "key": "expr:%s|value" % expr,
            "detail": "literal_value(%s) = %r, Python: %r" % (text, lv, pv)}


def fidelity(tier):
    """Concrete values through (a) plain Python and (b) the proxies pinned to numerals: same results."""
    import z3
    from vk import sym

    rnd = random.Random(1)
    exprs = [e for e in depth1() if not any(x in e for x in ("print", "input", "exit", "quit", "open", "exec", "eval",
             "globals", "locals", "breakpoint", "__import__", "hash", "id(", "setattr", "compile", "help", "vars",
             "dir", "repr", "str(", "bin(", "f'", "'%d'", "zfill", "center", "callable", "type(", "chr("))]
    exprs = rnd.sample(exprs, 400 if tier == "quick" else 1500)
    mism, checked = [], 0
    saved_hook = sym.SymInt.repr_hook
    sym.SymInt.repr_hook = None
    try:
        for e in exprs:
            vals = {"i0": rnd.randint(-3, 5), "i1": rnd.randint(-3, 5), "i2": rnd.randint(-2, 3),
                    "b0": rnd.random() < 0.5, "b1": rnd.random() < 0.5}
            try:
                code0 = compile(ast.parse(e, mode="eval"), "<e>", "eval")
                from vk import symtv as _symtv
                code = _symtv.compile_expr(e)
            except SyntaxError:
                continue
            try:
                real = ("v", eval(code0, dict(vals)))
                if hasattr(real[1], "__next__"):
                    continue
            except Exception as ex:  # noqa: BLE001
                real = ("x", type(ex).__name__)
            out = {}

            def h(eng, e=e, code=code, vals=vals, out=out):
                env = {k: (sym.SymBool(z3.BoolVal(v)) if isinstance(v, bool) else sym.SymInt(z3.IntVal(v)))
                       for k, v in vals.items()}
                g = {"__builtins__": _oracle_builtins()}
                g.update(env)
                try:
                    r = eval(code, g)
                    from vk.symtv import _snapshot
                    out["r"] = ("v", sym.concretize(_snapshot(r), eng.model()))
                except Exception as ex:  # noqa: BLE001
                    out["r"] = ("x", type(ex).__name__)

            eng = sym.Engine(budget_s=5)
            eng.explore(h)
            checked += 1
            got = out.get("r")
            if got is None:
                continue
            a, b = real, got
            if a[0] == "v" and b[0] == "v":
                ra, rb = a[1], b[1]
                if isinstance(ra, range):
                    ra = ("<range>", ra.start, ra.stop, ra.step)
                if isinstance(ra, (set, frozenset)):
                    ra = sorted(ra, key=repr)
                ok = ra == rb and (type(ra) is type(rb) or isinstance(ra, (int, float)))
                if isinstance(ra, float) and isinstance(rb, (int, float)):
                    ok = abs(ra - rb) < 1e-9
            else:
                ok = a == b
            if not ok:
                mism.append("%s with %s: python %r, proxies %r" % (e, vals, a, b))
    finally:
        sym.SymInt.repr_hook = saved_hook
    return {"checked": checked, "mismatches": mism}
