"""C20 - opt-out comments are honoured.

(a) real `core.has_ignore_comment(source, Range(a, b))` for symbolic a <= b over annotated line layouts  <=>
    the range overlaps an annotated physical line under an independent line model;
(b) in the scheduler (C10 harness on annotated sources) no accepted transaction contains a rewrite that
    overlaps an annotated line, for all range geometries;
(c) real `processing._do_rewrite` returns its input object when the (symbolic, concretised at the slice)
    range overlaps an annotated line, and `processing.fix` leaves annotated lines verbatim;
(d) files with the documented skip_file comment (13 bodies: untidy whitespace, tabs, blank-line runs, CRLF, no final
    newline, rewritable code, invalid Python, fragments x 4 comment positions) come back byte for byte from
    format_code (5 option sets), format_file (file on disk) and the stdin mode (concrete witness, not symbolic);
(e) pool obligation: for skeletons of the shared pool with one physical line annotated, on every path of
    the symbolic-literal run of each rule and of format_code the annotated line occurs verbatim in the output."""
from __future__ import annotations

import random

from vk import lines as L

PROPERTY = "C20"
LEVEL = "model_checking"
ENCODED = ["pyrefact.core:has_ignore_comment", "pyrefact.processing:_schedule_rewrites", "pyrefact.processing:_do_rewrite",
           "pyrefact.processing:fix", "pyrefact.main:format_code"]
STUBS = []
ASSUMPTIONS = [
    "an annotated line is a physical line (ended by \\n, \\r\\n or \\r) containing `#` followed by `pyrefact:ignore` "
    "or `pyrefact:skip_file` up to blanks; a range touches it when the half-open intervals overlap",
    "(c) concretises the range at the string slice: bounded enumeration through the solver, labelled so",
    "(e) has a degenerate symbolic dimension (literals of the program rarely influence which lines are rewritten); "
    "evidence reports branched_on per obligation",
]
OUTSIDE = ["annotated lines inside multi-line string literals for (e)"]

LAYOUTS = {
    "basic": "a = 1\nb = 2  # pyrefact: ignore\n\nc = 3 #pyrefact:skip_file\nd = 4",
    "tight": "a = 1 #pyrefact:ignore\nb = 2\nc = 3  #  pyrefact :  ignore\n",
    "crlf": "a = 1\r\nb = 2  # pyrefact: ignore\r\nc = 3\r\n",
    "last": "a = 1\nb = 2\nc = 3  # pyrefact: ignore",
    "none": "a = 1\nb = 2  # type: ignore\nc = 3  # pyrefact ignore\n",
    "first": "# pyrefact: ignore\na = 1\n\n\nb = 2\n",
    "hash-in-string": "a = '#'  # pyrefact: ignore\nb = '# not: ignore'\nc = 3\n",
    "formfeed": "a = 1\nb = 'x\x0cy'  # pyrefact: ignore\nc = 3\nd = 4\n",
    "unicode-sep": "a = 'p\u2028q'\nb = 2  # pyrefact: ignore\nc = 3\n",
}


def bounds(tier):
    return {"layouts": sorted(LAYOUTS), "range": "all 0 <= a <= b <= len(source) (symbolic)",
            "scheduler_rewrites": 2, "pool_skeletons": 40 if tier == "quick" else 400}


def ob_has_ignore(layout):
    import z3
    from vk import instrument, sym
    from pyrefact import core

    src = LAYOUTS[layout]
    model = [(s, e, L.annotated(t)) for s, e, t in L.py_lines(src)]

    def harness(eng):
        a, b = eng.var("a"), eng.var("b")
        eng.require(z3.And(0 <= a, a <= b, b <= len(src)))
        got = core.has_ignore_comment(src, core.Range(sym.SymInt(a), sym.SymInt(b)))
        ref = z3.Or(*([z3.And(a < le, ls < b) for ls, le, ann in model if ann] or [z3.BoolVal(False)]))
        eng.claim(ref if got else z3.Not(ref), info={"got": bool(got)})

    eng = sym.Engine(budget_s=60, max_cex=3)
    eng.path_hooks.append(instrument.reset_caches)
    return eng.explore(harness)


def ob_do_rewrite(layout):
    """_do_rewrite / processing.fix never alter an annotated line (range concretised at the slice)."""
    import z3
    from vk import instrument, sym
    from pyrefact import core, processing

    src = LAYOUTS[layout]
    model = [(s, e, t, L.annotated(t)) for s, e, t in L.py_lines(src)]

    def harness(eng):
        a, b = eng.var("a"), eng.var("b")
        eng.require(z3.And(0 <= a, a <= b, b <= len(src)))
        rw = processing._Rewrite(core.Range(sym.SymInt(a), sym.SymInt(b)), "QQ")
        out = processing._do_rewrite(src, rw)
        m = eng.model()
        av, bv = m.eval(a, model_completion=True).as_long(), m.eval(b, model_completion=True).as_long()
        touches = any(av < le and ls < bv for ls, le, _t, ann in model if ann)
        if touches:
            eng.claim(out is src or out == src, info={"what": "rewrite on an annotated line applied", "a": av, "b": bv})
        else:
            eng.claim(True)

    eng = sym.Engine(budget_s=120, max_cex=3, max_paths=100000)
    eng.max_enum = 10000
    eng.path_hooks.append(instrument.reset_caches)
    return eng.explore(harness)


def ob_sched(cfg):
    from vk.harness import c10

    d = c10.ob_schedule(cfg, True, e2e=False, budget_s=100.0)
    d["cexs"] = [c for c in d.get("cexs", []) if (c.get("info") or {}).get("clause") == "ignored_line_untouched"]
    if not d["cexs"] and d["status"] == "refuted":
        d["status"] = "confirmed"
    return d


SKIP_BODIES = {
    "tidy": "x = 1\ny = 2\n",
    "trailing-blanks": "x = 1   \ny = 2\t\n",
    "tab-indent": "def f(a):\n\treturn a\n",
    "blank-line-runs": "x = 1\n\n\n\n\n\ny = 2\n",
    "blank-lines-in-block": "def f(a):\n    b = a\n\n\n\n    return b\n",
    "blank-lines-at-eof": "x = 1\n\n\n\n",
    "no-final-newline": "x = 1\ny = 2",
    "crlf": "x = 1\r\ny = 2\r\n",
    "rewritable": "import os\nimport sys\n\n\ndef f(camelCase):\n    unusedVar = 1\n    if camelCase == None:\n        return True\n    else:\n        return False\n",
    "long-line": "value = [1000000001, 1000000002, 1000000003, 1000000004, 1000000005, 1000000006, 1000000007, 1000000008, 1000000009]\n",
    "invalid-python": "def f(:\n    pass   \n",
    "indented-fragment": "    x = 1   \n    y = 2\n",
    "only-comment": "",
}
SKIP_POSITIONS = ("first-line", "last-line", "after-code", "in-block")


def _skip_inputs():
    for name, body in SKIP_BODIES.items():
        nl = "\r\n" if "\r\n" in body else "\n"
        for pos in SKIP_POSITIONS:
            if pos == "first-line":
                text = "# pyrefact: skip_file" + nl + body
            elif pos == "last-line":
                text = body + ("" if body.endswith(("\n", "")) and (body.endswith("\n") or not body) else nl) + "# pyrefact: skip_file" + (nl if body.endswith("\n") else "")
            elif pos == "after-code":
                lines = body.split(nl)
                if not lines[0].strip():
                    continue
                lines[0] = lines[0] + "  # pyrefact: skip_file"
                text = nl.join(lines)
            else:
                text = body + ("" if body.endswith("\n") or not body else nl) + "def g():" + nl + "    # pyrefact: skip_file" + nl + "    return 1" + nl
            yield "%s/%s" % (name, pos), text


def _skip_file_failures():
    """Files with the documented skip comment through the library, file and stdin entry points (concrete)."""
    import contextlib
    import importlib
    import io
    import os
    import sys
    import tempfile

    import pyrefact

    main = importlib.import_module("pyrefact.main")
    bad, n = [], 0
    with tempfile.TemporaryDirectory() as d:
        for name, src in _skip_inputs():
            for kw in ({}, {"safe": True}, {"keep_imports": True}, {"preserve": frozenset({"f"})}, {"max_line_length": 60}):
                n += 1
                try:
                    out = pyrefact.format_code(src, **kw)
                except Exception as e:  # noqa: BLE001
                    out = "raised %s" % type(e).__name__
                if out != src:
                    bad.append("format_code(%s)/%s" % (",".join(kw) or "defaults", name))
            path = os.path.join(d, "m.py")
            with open(path, "w", encoding="utf-8", newline="") as f:
                f.write(src)
            n += 1
            try:
                with contextlib.redirect_stdout(io.StringIO()):
                    main.format_file(path)
            except Exception as e:  # noqa: BLE001
                bad.append("format_file raised %s/%s" % (type(e).__name__, name))
            with open(path, "r", encoding="utf-8", newline="") as f:
                if f.read() != src:
                    bad.append("format_file/%s" % name)
            n += 1
            stdin, stdout = sys.stdin, sys.stdout
            try:
                sys.stdin, sys.stdout = io.StringIO(src, newline=""), io.StringIO(newline="")
                main.main(["--from-stdin"])
                echoed = sys.stdout.getvalue()
            except BaseException as e:  # noqa: BLE001 - SystemExit included
                echoed = "raised %s" % type(e).__name__
            finally:
                sys.stdin, sys.stdout = stdin, stdout
            if echoed != src + "\n":
                bad.append("stdin/%s" % name)
    return bad, n


def ob_skip_file():
    bad, n = _skip_file_failures()
    return {"status": "refuted" if bad else "confirmed", "paths": n, "checks": 0, "solver_s": 0.0, "claims": n,
            "cexs": [{"model": {}, "info": {"failures": bad[:20]}}] if bad else []}


def ob_pool(skeleton, transform, line_index):
    """Annotated physical line occurs verbatim in the output on every path."""
    from vk import instrument, pool, sym

    sk = pool.Skeleton.from_json(skeleton)
    T = pool.get_transform(transform)
    lines = sk.text.split("\n")
    lines[line_index] = lines[line_index] + "  # pyrefact: ignore"
    text = "\n".join(lines)
    annotated_line = lines[line_index]
    stats = {"changed": 0, "crash": 0}

    def harness(eng):
        sk.declare(eng)
        try:
            out = T(text)
        except instrument.MarkerEscape:
            raise sym.Unsupported("marker escaped to sympy")
        except Exception:  # noqa: BLE001
            stats["crash"] += 1
            return
        if out != text:
            stats["changed"] += 1
        present = annotated_line in out.split("\n") or annotated_line.strip() in [l.strip() for l in out.split("\n")]
        eng.claim(annotated_line in out.split("\n"),
                  info={"what": "annotated line not carried over verbatim", "line": annotated_line,
                        "moved_or_reindented": present, "after": out})

    eng = sym.Engine(budget_s=60, max_paths=500, max_cex=2)
    eng.path_hooks.append(instrument.reset_caches)
    d = eng.explore(harness).as_dict()
    d["notes"] = dict(stats, branched_on=d["branches"])
    if not stats["changed"]:
        d["trivial"] = True
    if stats["crash"]:
        d["allow_vacuous"] = True  # a crash of the rule is C04's business
    return d


def obligations(tier, seed):
    from vk.common import Obligation
    from vk.harness import c10

    rnd = random.Random(seed)
    obs = []
    for name in LAYOUTS:
        obs.append(Obligation("has_ignore/%s" % name, ob_has_ignore, {"layout": name}, sample={"layout": LAYOUTS[name]}))
    for name in ("basic", "tight", "last", "crlf"):
        obs.append(Obligation("do_rewrite/%s" % name, ob_do_rewrite, {"layout": name}, hard_timeout=300,
                              sample={"layout": LAYOUTS[name]}))
    cfgs = c10._configs(1) + c10._configs(2)
    if tier != "quick":
        cfgs += rnd.sample(c10._configs(3), 60)
    for cfg in cfgs:
        obs.append(Obligation("sched/%s" % c10.cfg_id(cfg), ob_sched, {"cfg": cfg}, hard_timeout=300,
                              sample={"rewrites": cfg}))
    obs.append(Obligation("skip_file", ob_skip_file, {}, sample={"layouts": "those with the documented skip_file form"}))
    # (e) pool
    from vk import poolfam

    sks = poolfam.pool_skeletons(tier, seed)
    rules = poolfam.scheduled_rules()
    jobs = []
    for sk in sks:
        body_lines = [i for i, l in enumerate(sk.text.split("\n"))
                      if l.strip() and i >= sk.meta.get("first_line", 0) and not l.strip().startswith(('"""', "'''"))]
        for li in body_lines:
            jobs.append((sk, li))
    rnd.shuffle(jobs)
    n = 60 if tier == "quick" else 1500
    jobs = jobs[:n]
    # every physical line of the rule-specific skeletons (incl. the rules that edit text directly)
    for sk in poolfam.direct_edit_skeletons():
        for li, l in enumerate(sk.text.split("\n")):
            if l.strip():
                jobs.append((sk, li))
    for sk, li in jobs:
        tr = sk.meta.get("rule") or "format_code:safe=1"
        for t in sorted({tr, "format_code:safe=1", "format_code:safe=0"} if sk.sid.startswith("de/") else {tr, "format_code:safe=1"}):
            obs.append(Obligation("pool/%s/%s/line%d" % (t, sk.sid, li), ob_pool,
                                  {"skeleton": sk.to_json(), "transform": t, "line_index": li}, hard_timeout=120,
                                  sample={"program": sk.text[-300:], "annotated_line": li, "transform": t}))
    return obs


def case_of(ob, r, cex):
    info = cex.get("info") or {}
    if ob.oid.startswith("has_ignore/"):
        return {"kind": "has_ignore", "layout": ob.params["layout"], "a": cex["model"]["a"], "b": cex["model"]["b"],
                "key": "%s|a=%s,b=%s" % (ob.oid, _region(ob.params["layout"], cex["model"]["a"]), _region(ob.params["layout"], cex["model"]["b"]))}
    if ob.oid.startswith("do_rewrite/"):
        return {"kind": "do_rewrite", "layout": ob.params["layout"], "a": info.get("a"), "b": info.get("b"),
                "key": "%s|applied" % ob.oid}
    if ob.oid.startswith("sched/"):
        cfg = ob.params["cfg"]
        conc = [(cex["model"].get("a%d" % i, 0), cex["model"].get("b%d" % i, 0)) for i in range(len(cfg))]
        return {"kind": "sched", "cfg": cfg, "annotated": True, "ranges": conc, "clause": "ignored_line_untouched",
                "key": "%s|ignored_line_untouched" % ob.oid}
    if ob.oid == "skip_file":
        return {"kind": "skip_file", "key": "skip_file"}
    return {"kind": "pool", "skeleton": ob.params["skeleton"], "transform": ob.params["transform"],
            "line_index": ob.params["line_index"], "model": cex["model"],
            "key": "%s|%s" % (ob.oid, "reindented-or-moved" if info.get("moved_or_reindented") else "rewritten-or-deleted")}


def _region(layout, pos):
    """Finite abstraction of a position: (line number, at-start / inside / at-end-of-source)."""
    src = LAYOUTS[layout]
    for i, (s, e, _t) in enumerate(L.py_lines(src)):
        if s <= pos < e:
            return "L%d%s" % (i + 1, "s" if pos == s else "")
    return "EOF"


def replay(case):
    from pyrefact import core, processing
    import pyrefact

    k = case["kind"]
    if k == "has_ignore":
        src = LAYOUTS[case["layout"]]
        a, b = case["a"], case["b"]
        got = core.has_ignore_comment(src, core.Range(a, b))
        ref = any(a < le and ls < b for ls, le, t in L.py_lines(src) if L.annotated(t))
        return {"reproduced": bool(got) != ref,
                "detail": "has_ignore_comment(%r, Range(%d, %d)) = %s; independent line model: %s" % (src, a, b, got, ref)}
    if k == "do_rewrite":
        src = LAYOUTS[case["layout"]]
        a, b = case["a"], case["b"]
        out = processing._do_rewrite(src, processing._Rewrite(core.Range(a, b), "QQ"))
        touches = any(a < le and ls < b for ls, le, t in L.py_lines(src) if L.annotated(t))
        return {"reproduced": touches and out != src, "detail": "_do_rewrite(%r, Range(%d,%d)->'QQ') = %r" % (src, a, b, out)}
    if k == "sched":
        from vk.harness import c10

        return c10.replay(case)
    if k == "skip_file":
        bad, _n = _skip_file_failures()
        return {"reproduced": bool(bad), "detail": "skip_file inputs not returned byte for byte: %s" % bad[:12]}
    from vk import pool, symtv

    sk = pool.Skeleton.from_json(case["skeleton"])
    lines = sk.text.split("\n")
    lines[case["line_index"]] = lines[case["line_index"]] + "  # pyrefact: ignore"
    text = symtv.concrete_program("\n".join(lines), case["model"])
    ann = symtv.concrete_program(lines[case["line_index"]], case["model"])
    T = pool.get_transform(case["transform"])
    out = T(text)
    ok = ann in out.split("\n")
    moved = ann.strip() in [l.strip() for l in out.split("\n")]
    return {"reproduced": not ok, "key": "%s|%s" % (case["oid"], "reindented-or-moved" if moved else "rewritten-or-deleted"),
            "detail": "annotated line %r not verbatim in output of %s:\n%s\n--- output:\n%s" % (ann, case["transform"], text[-600:], out[-600:])}
