"""C02 - every individual rewrite rule preserves program behaviour.

T = one rule (every rule named in main._multi_run_fixes / format_code, read from main.py at run time),
composed with the pipeline's own import completion. Skeletons: the repository's before-snippets auto-closed
with symbolic run-time inputs, grammar-enumerated programs, and the literal-sensitive families (symbolic
literals). On every path of the rule's symbolic-literal run both programs are executed symbolically; z3
decides trace equality for all inputs / tape values / literal values of the path at once."""
from __future__ import annotations

import random

from vk import families, pool, poolfam, rulefam
from vk.common import Obligation

PROPERTY = "C02"
LEVEL = "translation_validation"
ENCODED = ["pyrefact.fixes:*", "pyrefact.performance:*", "pyrefact.symbolic_math:*", "pyrefact.object_oriented:*",
           "pyrefact.abstractions:*", "pyrefact.processing:fix", "pyrefact.processing:_schedule_rewrites",
           "pyrefact.processing:_apply_rewrites", "pyrefact.processing:_do_rewrite", "pyrefact.processing:alter_code"]
STUBS = ["pandas programs run against the vendored reference shim shims/pandas.py (pandas is not installed; the shim is part "
         "of the trusted base of those obligations, in the symbolic run and in the replay alike)",
         "numpy programs run with the real numpy (wheelhouse, 2.x) on dtype=object arrays whose entries are proxies",
         "unknown functions of a snippet are tape-backed (print their arguments, return TAPE.pop() % 3); unknown "
         "values are inputs in -3..3 / lists of inputs"]
ASSUMPTIONS = [
    "oracle: type-tagged stdout trace + normal termination; an int and its decimal text coincide at top level",
    "inputs in -3..3 (tape residues), rule-visible literals all naturals < 10**6, tape <= 12, fuel <= 600",
    "the isolated rule is followed by fixes.add_missing_imports (the pipeline's own import completion), because "
    "several rules introduce collections./functools. names by design",
    "a (rule, skeleton) pair is non-trivial only if the rule changes the text",
]
OUTSIDE = ["import rules (need a package tree on disk: not exercised, listed in evidence)",
           "pandas semantics beyond the vendored reference shim shims/pandas.py (dtype upcasting of rows, duplicate labels, "
           "non-scalar keys)", "numpy rules beyond object arrays of Python integers (fixed-width overflow, floats)",
           "programs outside the families"]


def bounds(tier):
    return {"harvested_snippets": "all closable" , "grammar_programs": 40 if tier == "quick" else 400,
            "every_rule_on_pool_sample": 12 if tier == "quick" else 80}


def _ob(sk, tr, prefix, budget=40.0):
    return Obligation("%s/%s/%s" % (prefix, tr.split(":")[1], sk.sid), pool.ob_tv,
                      dict(skeleton=sk.to_json(), transform=tr, budget_s=budget, max_cex=3, require_fire=True),
                      hard_timeout=budget + 40, sample={"program": sk.text[-400:], "transform": tr})


def _plus(tr):
    return "rule+imports:" + tr[len("rule:"):]


def obligations(tier, seed):
    rnd = random.Random(seed)
    quick = tier == "quick"
    obs = []
    hv = poolfam.harvested_skeletons()
    for sk in hv:
        if sk.meta.get("rule"):
            obs.append(_ob(sk, _plus(sk.meta["rule"]), "own"))
    # hand-written per-rule programs (rules and shapes the harvested snippets cannot reach)
    for sk in rulefam.skeletons():
        obs.append(_ob(sk, _plus(sk.meta["rule"]), "fam"))
    # every rule on a sample of the pool (a rule fires where its pattern happens to occur)
    rules = [t for t in poolfam.scheduled_rules()
             if not any(x in t for x in ("numpy", "pandas", "tracing.", "imports", "line_length", "blank_lines"))]
    gr = poolfam.grammar_skeletons(12 if quick else None, seed)
    sample = (rnd.sample(hv, 12) if quick else hv) + gr
    for sk in sample:
        for tr in rules:
            obs.append(_ob(sk, _plus(tr), "cross", budget=25.0))
    for sk in poolfam.loopvar_skeletons():
        for tr in ("rule:fixes.replace_for_loops_with_set_list_comp", "rule:fixes.replace_for_loops_with_dict_comp"):
            obs.append(_ob(sk, _plus(tr), "loopvar"))
    # literal-sensitive rules on their symbolic-literal families
    lit = list(families.c16_skeletons("quick"))
    for sk in (rnd.sample(lit, 60) if quick else lit[::2]):
        for tr in ("rule:fixes.remove_dead_ifs", "rule:fixes.delete_unreachable_code",
                   "rule:fixes.remove_redundant_boolop_values"):
            obs.append(_ob(sk, _plus(tr), "lit"))
    c17 = list(families.c17_two_comparisons()) + list(families.c17_constrained_range("quick"))
    for sk in (rnd.sample(c17, 60) if quick else c17):
        for tr in ("rule:symbolic_math.simplify_boolean_expressions", "rule:symbolic_math.simplify_constrained_range",
                   "rule:fixes.replace_for_loops_with_set_list_comp"):
            obs.append(_ob(sk, _plus(tr), "lit"))
    rb = list(families.c17_redundant_boolop())
    for sk in (rnd.sample(rb, 60) if quick else rb):
        obs.append(_ob(sk, _plus("rule:fixes.remove_redundant_boolop_values"), "lit"))
    # a BoolOp in value position: simplify_boolean_expressions folds to True/False (known finding); a fixed dozen
    for sk in rb[::60]:
        obs.append(_ob(sk, _plus("rule:symbolic_math.simplify_boolean_expressions"), "boolvalue"))
    return obs


def case_of(ob, r, cex):
    return pool.tv_case(ob, r, cex)


def replay(case):
    return pool.tv_replay(case)


def evidence_extra(obligations, results):
    import collections

    fired = collections.Counter()
    for ob, r in zip(obligations, results):
        if r.get("fired"):
            fired[ob.params["transform"].split(":")[1]] += 1
    rules = sorted({ob.params["transform"].split(":")[1] for ob in obligations})
    return {"programs": sum(1 for r in results if r.get("fired")), "rules_exercised": len(fired),
            "rules_not_exercised": [r for r in rules if r not in fired],
            "fired_per_rule": dict(fired.most_common()),
            "not_exercised_by_construction": ["tracing.*", "import rules"]}
