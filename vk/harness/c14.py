"""C14 - pattern substitution rewrites exactly the matches and nothing else.

(a) real `pattern_matching.subn(pattern, repl, source, count)` with a *symbolic count* (all integers) on sources
    with k <= 5 matches, nested and adjacent: for count > 0 the number reported and the number of replacement
    tokens in the output are <= count; a pattern that does not occur returns the source object / bytes;
(b) on sources whose constants are marker literals (solver variables, so the match set differs from path to
    path): substituting a pattern by itself preserves the syntax tree; a replacement that permutes / duplicates
    / drops wildcards yields the tree of the source with the matched nodes replaced by the instantiated template
    (checked where matches are disjoint); lines not touched by a match are unchanged; the result parses;
(c) a line carrying an ignore comment is never rewritten (with symbolic constants deciding which lines match)."""
from __future__ import annotations

import ast

from vk import lines as L

PROPERTY = "C14"
LEVEL = "model_checking"
ENCODED = ["pyrefact.pattern_matching:subn", "pyrefact.pattern_matching:sub", "pyrefact.processing:find_replace",
           "pyrefact.core:format_template", "pyrefact.processing:_schedule_rewrites", "pyrefact.processing:_do_rewrite",
           "pyrefact.processing:_apply_rewrites"]
STUBS = []
ASSUMPTIONS = [
    "count ranges over all integers (symbolic); constants of sources/patterns are marker literals over naturals < 10**6",
    "the exact-tree clause is asserted only when the reference matcher's matches are pairwise disjoint (which nested "
    "match is applied first is the scheduler's business, C10)",
    "tree equality is ast.dump without positions after substituting the markers' terms",
]
OUTSIDE = ["arbitrary (pattern, replacement, source) triples beyond the enumerated shapes", "the CLI `replace` command"]

COUNT_SOURCES = {
    "none-fstrings": 'x = 1\nz = f"a{x}"\ny = (f"a"\nf"{x}")\ns = "b" \'c\'\nt = "bc"\n',
    "three": "x = 1\ny = 2\nx = 1\nif q:\n    x = 1\n",
    "none": "y = 2\nz = 3\n",
    "nested": "f(f(f(1)))\nf(2)\n",
    "adjacent": "x = 1; x = 1; x = 1\nx = 1\nx = 1\n",
    "one": "a = 0\nx = 1\n",
}
COUNT_PATTERNS = {"none-fstrings": ("nomatch_zz", "q"), "three": ("x = 1", "x = 99"), "none": ("x = 1", "x = 99"), "nested": ("f({{a}})", "g({{a}})"),
                  "adjacent": ("x = 1", "x = 99"), "one": ("x = 1", "x = 99")}

SUB_SOURCES = [
    "x = 7000 + 7001\ny = 7001 + 7000\nz = 3\n", "f(7000, 7001)\nf(7001, 7000)\ng(7000)\n",
    "if c:\n    x = 7000\n    y = 7001\nelse:\n    x = 7001\nz = 7000\n", "a = [7000, 7001, 7000]\nb = [7001]\n",
    "def f(a):\n    return a + 7000\n\n\nw = f(7001) + 7000\n", "x = 7000\n\n\n# comment\ny = 7000  # trailing\nz = 7001\n",
    "r = 7000 < v < 7001\ns = 7001 < v\n", "k = 7000 + 7001 + 7000\n",
    # bindings whose text contains backslashes, quotes, braces, format fields, non-ascii
    "p = f('C:\\\\new\\\\table.txt', 7000)\nq = f('a\\nb', 7001)\n", "p = f(\"it's {x}\", 7000)\nq = f('{{y}}', 7000)\n",
    "p = f(b'\\x00\\\\', 7000)\nq = f(r'\\d+\\1', 7001)\n", "p = f('\u00e9\\u00e9', 7000)\n",
    # statement sequences whose replacement differs from the match by indentation only
    "if c:\n    x = 7000\ny = 7001\nz = 7000\n", "def f(c):\n    if c:\n        x = 7000\n        y = 7001\n    return 7000\n",
    "while c:\n    c = 7000\nc = 7001\n", "if c:\n    x = 7000\n    y = 7001\nz = 7000\n",
    # f-strings whose literal fragments are themselves valid expressions (item, px, x1) next to calls that the
    # replacement fills with string constants of the same value
    "u = f(7000 + 7001, 7000 - 1)\nv = f(-7000, 7001 if c else 7000)\nw = f(lambda: 7000, not c)\n",
    "label = f\"item{count}\"\nkind = f(count, 7000)\n", "w = f'{n}px'\nu = f(n, 7001)\nv = f\"x1{n}y2\"\n",
    "def f(c):\n    for i in c:\n        if i:\n            x = 7000\n            y = 7001\n        z = 7000\n    return 7001\n",
]
SUB_PATTERNS = [
    ("{{a}} + {{b}}", "{{a}} + {{b}}"), ("{{a}} + {{b}}", "{{b}} + {{a}}"), ("{{a}} + {{a}}", "2 * {{a}}"),
    ("f({{a}}, {{b}})", "f({{b}}, {{a}})"), ("f({{a}}, {{b}})", "f({{a}}, {{a}})"), ("f({{a}}, {{b}})", "h()"),
    ("x = {{v}}", "x = {{v}}"), ("x = {{v}}", "x = {{v}} + 1"), ("{{t}} = 7000", "{{t}} = 0"), ("7000", "K"),
    ("[{{a}}, {{b}}, {{a}}]", "[{{b}}, {{a}}]"), ("return {{e}}", "return ({{e}})"), ("{{t}} = {{v}}", "{{t}} = {{v}}"),
    ("{{a}} < {{b}}", "{{b}} > {{a}}"), ("x = {{v}}\ny = {{w}}", "y = {{w}}\nx = {{v}}"),
    ("f({{a}}, {{b}})", "g({{b}}, {{a}})"), ("f({{a}}, 7000)", "f({{a}}, 7000)"), ("{{t}} = f({{a}}, {{b}})", "{{t}} = f({{a}}, {{b}})"),
    ("if {{c}}:\n    {{a}}\n{{b}}", "if {{c}}:\n    {{a}}\n    {{b}}"), ("if {{c}}:\n    {{a}}\n    {{b}}", "if {{c}}:\n    {{a}}\n{{b}}"),
    ("while {{c}}:\n    {{a}}\n{{b}}", "while {{c}}:\n    {{a}}\n    {{b}}"), ("if {{c}}:\n    {{a}}\n    {{b}}", "if {{c}}:\n    {{b}}\n    {{a}}"),
    ("f({{a}}, {{b}})", "{{a}} * {{b}}"), ("f({{a}}, {{b}})", "-{{a}} ** {{b}}"), ("f({{a}}, {{b}})", "{{a}}.real + {{b}}[0]"),
    ("f({{a}}, {{b}})", "{{b}} if {{a}} else not {{b}}"), ("{{a}} + {{b}}", "{{a}} * {{b}}"), ("{{a}} - {{b}}", "{{b}} - {{a}}"),
    ("f({{a}}, {{b}})", "['item', 'px', 'x1', {{a}}]"), ("f({{a}}, {{b}})", "g('y2', \"item\", {{b}})"),
]


def bounds(tier):
    return {"count": "all integers (symbolic)", "matches_per_source": "<= 5", "constants": "all naturals < 10**6 (symbolic)",
            "sub_shapes": "%d patterns x %d sources" % (len(SUB_PATTERNS), len(SUB_SOURCES))}


def ob_count(name):
    import z3
    from vk import instrument, sym
    from pyrefact import pattern_matching as pm

    src = COUNT_SOURCES[name]
    pat, repl = COUNT_PATTERNS[name]
    token = repl.split("(")[0] if "(" in repl else repl

    def harness(eng):
        c = eng.var("count")
        new, n = pm.subn(pat, repl, src, count=sym.SymInt(c))
        nt = sym.term(n) if not isinstance(n, int) else z3.IntVal(n)
        k_total = len(list(pm.finditer(pat, src)))
        applied = new.count(token) - src.count(token)
        props = [z3.Implies(c > 0, z3.And(nt <= c, z3.IntVal(applied) <= c)), nt >= 0, z3.IntVal(applied) >= 0,
                 z3.IntVal(applied) <= k_total]
        if k_total == 0:
            props.append(z3.BoolVal(new is src or new == src))
        # recorded only (the statement says 'bounds'): n == min(k, count) for count > 0
        eng.claim(z3.And(*props), info=lambda m: {"count": sym.concretize(c, m), "reported": sym.concretize(n, m),
                                                   "applied": applied, "matches": k_total})
        try:
            ast.parse(new)
        except SyntaxError:
            eng.claim(False, info={"what": "result does not parse", "out": new})

    eng = sym.Engine(budget_s=60, max_cex=3)
    eng.path_hooks.append(instrument.reset_caches)
    return eng.explore(harness)


def _dump(text, tab=None):
    """Position-free dump; marker constants are replaced by their canonical marker (lowest-numbered marker with
    an equal value on this path, forking on equality) so that equal values print alike."""
    tree = ast.parse(text)
    if tab is not None:
        for n in ast.walk(tree):
            if type(n) is ast.Constant and type(n.value) is int and n.value in tab.tab:
                n.value = tab.canonical(tab.tab[n.value])
    return ast.dump(tree, annotate_fields=True, include_attributes=False)


def _expected_tree(src, pat_ref, repl, matches, c12):
    """Source tree with every matched node replaced by the instantiated replacement (disjoint matches)."""
    raise NotImplementedError


def ob_sub(pattern, repl, source):
    import z3
    from vk import instrument, markers, sym
    from vk.harness import c12
    from pyrefact import pattern_matching as pm

    used = markers.markers_in(source + "\n" + pattern + "\n" + repl)

    def harness(eng):
        markers.declare(eng, used)
        tab = eng.path_state.get("markers")
        try:
            it = list(pm.finditer(pattern, source))
        except Exception as e:  # noqa: BLE001
            eng.claim(False, info={"what": "finditer raised %s" % type(e).__name__})
            return
        spans = [(sym.concretize(m.span.start, eng.model()), sym.concretize(m.span.end, eng.model())) for m in it]
        try:
            out = pm.sub(pattern, repl, source)
        except Exception as e:  # noqa: BLE001
            eng.claim(False, info={"what": "sub raised %s" % type(e).__name__})
            return
        probs = []
        try:
            out_tree = ast.parse(out)
        except SyntaxError:
            eng.claim(False, info={"what": "result does not parse", "out": out})
            return
        if not it:
            eng.claim(out is source or out == source, info={"what": "no match but text changed", "out": out})
            return
        # lines not touched by any match are unchanged (as a subsequence of the output's lines)
        src_lines = L.py_lines(source)
        untouched = [t for (s, e, t) in src_lines if not any(s < me and ms < e for ms, me in spans)]
        out_lines = [t for (_s, _e, t) in L.py_lines(out)]
        j = 0
        for t in untouched:
            while j < len(out_lines) and out_lines[j] != t:
                j += 1
            if j == len(out_lines):
                probs.append("untouched line %r missing from / reordered in the result" % t)
                break
            j += 1
        # self-substitution preserves the tree (markers compare by canonical text, i.e. by value on this path)
        if repl == pattern:
            a, b = _dump(source, tab), _dump(out, tab)
            if a != b:
                probs.append("substituting a pattern by itself changed the tree")
        else:
            # disjoint matches: every match replaced => the pattern no longer occurs where the replacement does not
            # reintroduce it, and the number of replacement sites equals the number of applied matches
            disjoint = all(not (a0 < b1 and b0 < a1) for i, (a0, a1) in enumerate(spans) for (b0, b1) in spans[i + 1:])
            if disjoint:
                exp = source
                for (s, e), m in sorted(zip(spans, it), key=lambda x: -x[0][0]):
                    inst = repl
                    g = m.groups._asdict() if hasattr(m.groups, "_asdict") else {}
                    for name, node in g.items():
                        if name == "root":
                            continue
                        seg = node if isinstance(node, str) else _segment(source, node)
                        if isinstance(node, ast.expr) and not isinstance(node, ast.Starred):
                            seg = "(" + seg + ")"  # tree-level substitution: the bound expression stays one operand
                        inst = inst.replace("{{" + name + "}}", seg)
                    if "{{" in inst:
                        exp = None
                        break
                    if "\n" in inst:
                        ind = " " * (s - max(st for st, _en, _t in src_lines if st <= s))
                        inst = inst.replace("\n", "\n" + ind)
                    exp = exp[:s] + inst + exp[e:]
                if exp is not None:
                    try:
                        a, b = _dump(exp, tab), _dump(out, tab)
                        if a != b:
                            probs.append("result tree differs from the source tree with the matched nodes replaced by "
                                         "the instantiated template")
                    except SyntaxError:
                        pass
        eng.claim(not probs, info={"problems": probs[:3], "out": out, "matches": len(it)})

    eng = sym.Engine(budget_s=60, max_cex=2)
    eng.path_hooks.append(instrument.reset_caches)
    return eng.explore(harness)


def _segment(source, node):
    s = L.charno(source, node.lineno, node.col_offset)
    e = L.charno(source, node.end_lineno, node.end_col_offset)
    return source[s:e]


IGNORE_SOURCES = [
    "x = 7000  # pyrefact: ignore\nx = 7001\nx = 7000\n",
    "f(7000)\nif c:\n    f(7001)  # pyrefact: ignore\n    f(7000)\n",
    "y = (7000 +  # pyrefact: ignore\n     7001)\ny = 7000 + 7001\n",
]
IGNORE_PATTERNS = [("x = 7000", "x = 0"), ("f({{a}})", "g({{a}})"), ("{{a}} + {{b}}", "{{b}} + {{a}}"), ("7000", "K")]
# matches that span several physical lines, with the annotation on every line in turn (first / interior / last line of
# the match, a line of a nested match, a line outside every match)
IGNORE_BASES = [
    ("y = f(\n    7000,\n    7001,\n)\nz = f(7001, 7000)\n",
     [("f({{a}}, {{b}})", "g({{b}}, {{a}})"), ("{{t}} = f({{a}}, {{b}})", "{{t}} = h({{a}})"), ("7000", "K")]),
    ("if c:\n    x = 7000\n    y = 7001\nz = 7000\n",
     [("if {{c}}:\n    {{a}}\n    {{b}}", "if {{c}}:\n    {{b}}\n    {{a}}"), ("x = {{v}}\ny = {{w}}", "y = {{w}}\nx = {{v}}"),
      ("{{t}} = 7000", "{{t}} = 0")]),
    ("def g(c):\n    for i in c:\n        w = f(i,\n              7000)\n    return [\n        7000,\n        7001,\n    ]\n",
     [("f({{a}}, {{b}})", "g({{b}}, {{a}})"), ("[{{a}}, {{b}}]", "[{{b}}, {{a}}]"), ("return {{e}}", "return ({{e}})"),
      ("for {{i}} in {{c}}:\n    {{a}}", "for {{i}} in {{c}}:\n    {{a}}\n    pass")]),
    ("k = (7000 +\n     7001 +\n     7000)\nm = 7000 + 7001\n",
     [("{{a}} + {{b}}", "{{b}} + {{a}}"), ("{{t}} = {{v}}", "{{t}} = ({{v}})"), ("7001", "K")]),
    ("class A:\n    x = 7000\n\n    def m(self):\n        return f(self.x,\n                 7001)\n",
     [("x = {{v}}", "x = {{v}} + 1"), ("f({{a}}, {{b}})", "g({{b}}, {{a}})"), ("return {{e}}", "return ({{e}})")]),
]


def ignore_variants():
    out = []
    for base, patterns in IGNORE_BASES:
        lines = base.split("\n")
        for i, line in enumerate(lines):
            if not line.strip():
                continue
            for spelling in ("  # pyrefact: ignore", " #pyrefact:ignore"):
                src = "\n".join(lines[:i] + [line + spelling] + lines[i + 1:])
                for p_, r_ in patterns:
                    out.append((p_, r_, src))
                if spelling.startswith("  "):
                    continue
                break
    return out


def ob_ignore(pattern, repl, source):
    from vk import instrument, markers, sym
    from pyrefact import pattern_matching as pm

    used = markers.markers_in(source + "\n" + pattern)
    ann = [t for (_s, _e, t) in L.py_lines(source) if L.annotated(t)]

    def harness(eng):
        markers.declare(eng, used)
        out = pm.sub(pattern, repl, source)
        out_lines = [t for (_s, _e, t) in L.py_lines(out)]
        missing = [t for t in ann if t not in out_lines]
        eng.claim(not missing, info={"what": "annotated line rewritten", "lines": missing, "out": out})

    eng = sym.Engine(budget_s=60, max_cex=2)
    eng.path_hooks.append(instrument.reset_caches)
    return eng.explore(harness)


def ob_batch(batch):
    agg = {"status": "confirmed", "paths": 0, "branches": 0, "checks": 0, "solver_s": 0.0, "claims": 0, "cexs": [],
           "inconclusive": []}
    for kind, p, r, s in batch:
        d = (ob_sub if kind == "sub" else ob_ignore)(p, r, s).as_dict()
        for k in ("paths", "branches", "checks", "claims"):
            agg[k] += d[k]
        agg["solver_s"] += d["solver_s"]
        from vk import sym as _sym
        _sym.merge_xcheck(agg, d)
        for c in d["cexs"]:
            c.update({"kind": kind, "pattern": p, "repl": r, "source": s})
            agg["cexs"].append(c)
        agg["inconclusive"] += d["inconclusive"]
    if agg["cexs"]:
        agg["status"] = "refuted"
    elif agg["inconclusive"]:
        agg["status"] = "inconclusive"
    return agg


def obligations(tier, seed):
    from vk.common import Obligation

    obs = [Obligation("count/%s" % n, ob_count, {"name": n}, sample={"source": COUNT_SOURCES[n], "pattern": COUNT_PATTERNS[n]})
           for n in COUNT_SOURCES]
    jobs = [("sub", p, r, s) for (p, r) in SUB_PATTERNS for s in SUB_SOURCES]
    jobs += [("ignore", p, r, s) for (p, r) in IGNORE_PATTERNS for s in IGNORE_SOURCES]
    jobs += [("ignore", p, r, s) for (p, r, s) in ignore_variants()]
    B = 8
    for i in range(0, len(jobs), B):
        obs.append(Obligation("sub-batch/%d" % (i // B), ob_batch, {"batch": jobs[i:i + B]}, hard_timeout=600,
                              sample={"pattern": jobs[i][1], "replacement": jobs[i][2], "source": jobs[i][3]}))
    return obs


def case_of(ob, r, cex):
    info = cex.get("info") or {}
    if ob.oid.startswith("count/"):
        return {"kind": "count", "name": ob.params["name"], "count": cex["model"].get("count", 0),
                "key": "%s|count%s" % (ob.oid, ">0" if cex["model"].get("count", 0) > 0 else "<=0")}
    return {"kind": cex["kind"], "pattern": cex["pattern"], "repl": cex["repl"], "source": cex["source"],
            "model": cex["model"], "key": "%s:%s->%s/%s|%s" % (cex["kind"], cex["pattern"], cex["repl"], cex["source"],
                                                                (info.get("what") or (info.get("problems") or ["?"])[0])[:40])}


def replay(case):
    from pyrefact import pattern_matching as pm
    from vk import markers

    if case["kind"] == "count":
        src = COUNT_SOURCES[case["name"]]
        pat, repl = COUNT_PATTERNS[case["name"]]
        token = repl.split("(")[0] if "(" in repl else repl
        c = case["count"]
        new, n = pm.subn(pat, repl, src, count=c)
        k_total = len(list(pm.finditer(pat, src)))
        applied = new.count(token) - src.count(token)
        bad = (c > 0 and (n > c or applied > c)) or n < 0 or applied < 0 or applied > k_total or (k_total == 0 and new != src)
        try:
            ast.parse(new)
        except SyntaxError:
            bad = True
        return {"reproduced": bad, "detail": "subn(%r, %r, %r, count=%d) -> reported %d, %d replacement(s) in %r" % (
            pat, repl, src, c, n, applied, new)}
    values = {int(k[1:]): v for k, v in case["model"].items() if k.startswith("c") and k[1:].isdigit()}
    pat, repl, src = (markers.substitute(case[x], values) for x in ("pattern", "repl", "source"))
    try:
        out = pm.sub(pat, repl, src)
    except Exception as e:  # noqa: BLE001
        return {"reproduced": True, "detail": "sub(%r, %r, %r) raised %r" % (pat, repl, src, e)}
    if case["kind"] == "ignore":
        ann = [t for (_s, _e, t) in L.py_lines(src) if L.annotated(t)]
        out_lines = [t for (_s, _e, t) in L.py_lines(out)]
        missing = [t for t in ann if t not in out_lines]
        return {"reproduced": bool(missing), "detail": "sub(%r, %r, %r) = %r: annotated line(s) %s rewritten" % (pat, repl, src, out, missing)}
    probs = []
    try:
        out_tree = ast.parse(out)
    except SyntaxError:
        return {"reproduced": True, "detail": "sub(%r, %r, %r) = %r does not parse" % (pat, repl, src, out)}
    try:
        it = list(pm.finditer(pat, src))
    except Exception as e:  # noqa: BLE001
        return {"reproduced": True, "detail": "finditer(%r, %r) raised %r" % (pat, src, e)}
    spans = [tuple(m.span) for m in it]
    if not it and out != src:
        probs.append("no match but text changed")
    src_lines = L.py_lines(src)
    untouched = [t for (s, e, t) in src_lines if not any(s < me and ms < e for ms, me in spans)]
    out_lines = [t for (_s, _e, t) in L.py_lines(out)]
    j = 0
    for t in untouched:
        while j < len(out_lines) and out_lines[j] != t:
            j += 1
        if j == len(out_lines):
            probs.append("untouched line %r missing from / reordered in the result" % t)
            break
        j += 1
    if it and repl == pat and ast.dump(ast.parse(src)) != ast.dump(out_tree):
        probs.append("substituting a pattern by itself changed the tree")
    if it and repl != pat:
        disjoint = all(not (a0 < b1 and b0 < a1) for i, (a0, a1) in enumerate(spans) for (b0, b1) in spans[i + 1:])
        if disjoint:
            exp = src
            for (s, e), m in sorted(zip(spans, it), key=lambda x: -x[0][0]):
                inst = repl
                g = m.groups._asdict() if hasattr(m.groups, "_asdict") else {}
                for name, node in g.items():
                    if name != "root":
                        seg = node if isinstance(node, str) else _segment(src, node)
                        if isinstance(node, ast.expr) and not isinstance(node, ast.Starred):
                            seg = "(" + seg + ")"
                        inst = inst.replace("{{" + name + "}}", seg)
                if "{{" in inst:
                    exp = None
                    break
                if "\n" in inst:
                    ind = " " * (s - max(st for st, _en, _t in src_lines if st <= s))
                    inst = inst.replace("\n", "\n" + ind)
                exp = exp[:s] + inst + exp[e:]
            if exp is not None:
                try:
                    if ast.dump(ast.parse(exp)) != ast.dump(out_tree):
                        probs.append("result tree differs from the source tree with the matched nodes replaced (expected %r)" % exp)
                except SyntaxError:
                    pass
    return {"reproduced": bool(probs), "detail": "sub(%r, %r, %r) = %r: %s" % (pat, repl, src, out, "; ".join(probs))}
