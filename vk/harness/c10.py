"""C10 - rewrites are scheduled transactionally and never overlap.

Real `processing._schedule_rewrites` is run on synthetic rules whose rewrite ranges are solver
variables (every geometry of nesting / abutting / empty / equal ranges); the property statement is
asserted clause by clause as z3 formulas over the endpoints. The validity rollback is decided on
the real `_apply_rewrites` with `_do_rewrite` / `is_valid_python` replaced by solver-chosen
outcomes. Every explored path is additionally replayed end to end through the public
`processing.fix` / `processing.chain` with concrete ranges from the path's model and unique
replacement tokens (the observation point the property names).
"""
from __future__ import annotations

import itertools
import os
import random

PROPERTY = "C10"
LEVEL = "model_checking"
ENCODED = [
    "pyrefact.processing:_schedule_rewrites",
    "pyrefact.processing:_apply_rewrites",
    "pyrefact.processing:_get_charnos",
    "pyrefact.processing:fix",
    "pyrefact.processing:chain",
    "pyrefact.core:has_ignore_comment",
    "pyrefact.core:Range.overlaps",
]
STUBS = [
    "rollback harness: processing._do_rewrite returns an abstract text per call; core.is_valid_python "
    "returns a solver-chosen Boolean per abstract text; _substitute_original_(f)strings return a further "
    "abstract text or their input (solver-chosen)",
]
ASSUMPTIONS = [
    "overlap of [a,b) and [c,d) is a<d and c<b (an insertion point strictly inside a replaced range "
    "conflicts; abutting ranges and two insertions at one point do not)",
    "'dropped only for a stated reason' is an implication (a more permissive scheduler is not flagged); "
    "precedence among default-numbered rewrites of one rule is left open",
    "application order clause (descending, right-to-left) is asserted only after a concrete binding check "
    "confirms that _apply_rewrites applies rewrites one after the other with absolute offsets",
    "rule texts are opaque tokens; ranges lie inside one module-level string literal, so every splice parses",
]
OUTSIDE = ["more than 4 rewrites per pass, more than 2 rule groups", "AST-node targets (ranges are used directly)"]

# The source: a module-level triple-quoted string; line 2 carries an ignore comment.
HEAD = 'S = """\n'
BODY_LINES = ["aaaa bbbb\n", "cc  # pyrefact: ignore\n", "dddd eeee\n"]
BODY_LINES_PLAIN = ["aaaa bbbb\n", "cccc\n", "dddd eeee\n"]
BODY_LINES_ODD = ["aaaa bbbb\n", "cc  #pyrefact :  ignore\n", "dddd eeee\n"]  # accepted spacing variants, same length
TAIL = '"""\n'


def _layout(annotated):
    body = BODY_LINES_ODD if annotated == "odd" else (BODY_LINES if annotated else BODY_LINES_PLAIN)
    src = HEAD + "".join(body) + TAIL
    lines = []
    pos = len(HEAD)
    for ln in body:
        lines.append((pos, pos + len(ln), "pyrefact" in ln))
        pos += len(ln)
    lo, hi = len(HEAD), pos - 1  # ranges live inside the literal body (before the last newline)
    return src, lines, lo, hi


def bounds(tier):
    return {
        "rewrites_per_pass": "<=3 (all configurations for <=2; seed-chosen subset of 3)" if tier == "quick"
        else "<=3 (all), 4 (seed-chosen subset)",
        "rule_groups": 2,
        "transaction_ids": "{default, 0, 1}; {0, 1, 2} in every yield order for three rewrites of one rule",
        "range_endpoints": "all integers lo <= a <= b <= hi inside a 3-line literal body (symbolic)",
        "layouts": "with and without an ignore-annotated line",
    }


# ----------------------------------------------------------------------------------------------------
# configurations: one entry per rewrite (group, txn|None, text)


def _configs(n):
    slots = [(g, t) for g in (0, 1) for t in (None, 0, 1)]
    out = []
    for assign in itertools.product(slots, repeat=n):
        groups = sorted({g for g, _ in assign})
        if groups and groups[0] != 0:
            continue  # group ids are positions in the rule list: canonical when 0 is used first
        for texts in itertools.product("AB", repeat=n):
            if texts[0] != "A":
                continue  # renaming symmetry of tokens
            out.append([(g, t, x) for (g, t), x in zip(assign, texts)])
    return out


def _configs_three_numbers():
    """One rule, three rewrites with the transaction numbers 0, 1, 2 in every yield order (a duplicate pair with a
    third transaction numbered in between is only expressible with three numbers)."""
    out = []
    for perm in itertools.permutations((0, 1, 2)):
        for texts in itertools.product("AB", repeat=3):
            if texts[0] != "A":
                continue
            out.append([(0, t, x) for t, x in zip(perm, texts)])
    return out


def cfg_id(cfg):
    return ",".join("%d%s%s" % (g, "d" if t is None else t, x) for g, t, x in cfg)


def _txn_keys(cfg):
    """(group index, transaction number) per rewrite, numbering defaults the way a shared counter does."""
    groups = sorted({g for g, _, _ in cfg})
    cnt = -100000000
    key = {}
    for gi, g in enumerate(groups):
        for i, (gg, t, _x) in enumerate(cfg):
            if gg == g:
                cnt += 1
                key[i] = (gi, cnt if t is None else t, t is None)
    return key


def _precedes(u, t):
    """u has precedence over t: earlier rule, then lower transaction number. Between two
    default-numbered rewrites of one rule no order is stated (left open: either way)."""
    if u[0] != t[0]:
        return u[0] < t[0]
    if u[2] and t[2]:
        return True
    return u[1] < t[1]


def check_binding():
    """Concrete probe of the application discipline the order clause relies on."""
    from pyrefact import core, processing

    src = "abcdef\n"
    T = processing._Transaction(0, 0, "r")
    asc = [(T, (core.Range(0, 1), processing._Rewrite(core.Range(0, 1), "XXXX"))),
           (T, (core.Range(3, 4), processing._Rewrite(core.Range(3, 4), "Y")))]
    try:
        out_asc = processing._apply_rewrites(src, asc)
        out_desc = processing._apply_rewrites(src, list(reversed(asc)))
    except Exception:
        return False
    return out_desc == "XXXXbcYef\n" and out_asc != out_desc


def ob_schedule(cfg, annotated, e2e=True, budget_s=100.0):
    import z3
    from vk import sym
    from vk.instrument import reset_caches
    from pyrefact import core, processing

    src, lines, lo, hi = _layout(annotated)
    n = len(cfg)
    keys = _txn_keys(cfg)
    txns = sorted(set(keys.values()))
    members = {t: [i for i in range(n) if keys[i] == t] for t in txns}
    groups = sorted({g for g, _, _ in cfg})
    order_clause = check_binding()
    stats = {"e2e": 0, "e2e_fail": 0}

    def ov(a, b):
        return z3.And(a[0] < b[1], b[0] < a[1])

    def harness(eng):
        R = []
        for i in range(n):
            a, b = eng.var("a%d" % i), eng.var("b%d" % i)
            eng.require(z3.And(lo <= a, a <= b, b <= hi))
            R.append((a, b))
        funcs = []
        for g in groups:
            def rule(source, g=g):
                for i, (gg, t, txt) in enumerate(cfg):
                    if gg == g:
                        r = core.Range(sym.SymInt(R[i][0]), sym.SymInt(R[i][1]))
                        yield (r, txt) if t is None else (r, txt, t)

            rule.__name__ = "rule%d" % g
            funcs.append((rule, [src], {}))
        res = processing._schedule_rewrites(src, funcs)
        entries = []
        for (t, (rng, rw)) in res:
            key = next(k for k in txns if k[0] == t.group_number and k[1] == t.transaction_number)
            entries.append((key, (sym.term(rng.start), sym.term(rng.end)), rw.new))

        def match(e, i):
            if e[2] != cfg[i][2]:
                return z3.BoolVal(False)
            return z3.And(e[1][0] == R[i][0], e[1][1] == R[i][1])

        props = {}
        # (i) atomic: all distinct rewrites of an accepted transaction are scheduled, and nothing else
        atomic = []
        for t in txns:
            es = [e for e in entries if e[0] == t]
            if es:
                for i in members[t]:
                    atomic.append(z3.Or(*[match(e, i) for e in es]))
                for e in es:
                    atomic.append(z3.Or(*[match(e, i) for i in members[t]]))
        props["atomic"] = z3.And(*atomic) if atomic else True
        # (ii) disjoint
        dis = [z3.Not(ov(e[1], f[1])) for e, f in itertools.combinations(entries, 2)]
        props["disjoint"] = z3.And(*dis) if dis else True
        # (iii) dropped only for a stated reason
        reasons = []
        for t in txns:
            if any(e[0] == t for e in entries):
                continue
            ms = members[t]
            why = []
            why += [ov(R[i], R[j]) for i, j in itertools.combinations(ms, 2)]  # overlaps itself
            why += [z3.And(R[i][0] <= le, ls <= R[i][1]) for i in ms for (ls, le, ann) in lines if ann]
            for u in txns:
                if u == t:
                    continue
                mu = members[u]

                # duplicates it: same set of (range, text)
                def sub(xs, ys):
                    return z3.And(*[z3.Or(*[z3.And(R[i][0] == R[j][0], R[i][1] == R[j][1])
                                            for j in ys if cfg[j][2] == cfg[i][2]] or [z3.BoolVal(False)])
                                    for i in xs])

                if not _precedes(u, t):
                    # which of two identical transactions is the one that was 'dropped' cannot be told from the
                    # applied rewrites: a duplicate of an *accepted* transaction counts as that transaction
                    if any(e[0] == u for e in entries):
                        why.append(z3.And(sub(ms, mu), sub(mu, ms)))
                    continue
                why += [ov(R[i], R[j]) for i in ms for j in mu]  # overlaps a transaction with precedence
                why.append(z3.And(sub(ms, mu), sub(mu, ms)))
            reasons.append(z3.Or(*why) if why else z3.BoolVal(False))
        props["dropped_only_for_reason"] = z3.And(*reasons) if reasons else True
        # (iv) a transaction touching an ignored line is dropped
        ign = []
        for t in txns:
            if any(e[0] == t for e in entries):
                for i in members[t]:
                    for (ls, le, ann) in lines:
                        if ann:
                            ign.append(z3.Not(z3.And(R[i][0] < le, ls < R[i][1])))
        props["ignored_line_untouched"] = z3.And(*ign) if ign else True
        # (v) application order: right-to-left
        if order_clause:
            od = [f[1][1] <= e[1][0] for e, f in itertools.combinations(entries, 2)]
            props["right_to_left"] = z3.And(*od) if od else True

        for name, p in props.items():
            eng.claim(p, info={"clause": name})

        # path-representative end-to-end replay through the public decorators
        if e2e:
            m = eng.model()
            conc = [(m.eval(a, model_completion=True).as_long(), m.eval(b, model_completion=True).as_long())
                    for a, b in R]
            accepted = sorted({e[0] for e in entries})
            exp_count = {}
            for e in entries:
                exp_count[e[2]] = exp_count.get(e[2], 0) + 1
            out = run_e2e(cfg, conc, annotated)
            stats["e2e"] += 1
            got = {x: out.count(TOKEN[x]) for x in "AB"}
            want = {x: exp_count.get(x, 0) for x in "AB"}
            if got != want:
                stats["e2e_fail"] += 1
                eng.res.cexs.append({"model": {**{"a%d" % i: conc[i][0] for i in range(n)},
                                               **{"b%d" % i: conc[i][1] for i in range(n)}},
                                     "info": {"clause": "e2e", "got": got, "want": want,
                                              "accepted": [list(a) for a in accepted]}})

    eng = sym.Engine(budget_s=budget_s, max_paths=200000, max_cex=6)
    eng.path_hooks.append(reset_caches)
    res = eng.explore(harness)
    d = res.as_dict()
    d["notes"] = {"e2e_runs": stats["e2e"], "order_clause": order_clause}
    return d


TOKEN = {"A": "QQAQQ", "B": "QQBQQ"}


def run_e2e(cfg, conc, annotated):
    """Drive the public decorators with concrete synthetic rules (works on either package)."""
    from pyrefact import core, processing

    src, _lines, _lo, _hi = _layout(annotated)
    groups = sorted({g for g, _, _ in cfg})
    rules = []
    for g in groups:
        def rule(source, g=g):
            if source != src:
                return
            for i, (gg, t, txt) in enumerate(cfg):
                if gg == g:
                    r = core.Range(conc[i][0], conc[i][1])
                    yield (r, TOKEN[txt]) if t is None else (r, TOKEN[txt], t)

        rule.__name__ = "rule%d" % g
        rules.append(rule)
    if len(rules) == 1:
        return processing.fix(rules[0])(src)
    return processing.chain(rules)(src)


def spec_concrete(cfg, conc, annotated, out, reason_lines=None):
    """Evaluate the statement on one concrete run (used by replay): returns list of broken clauses."""
    src, lines, _lo, _hi = _layout(annotated)
    reason_lines = lines if reason_lines is None else reason_lines
    n = len(cfg)
    keys = _txn_keys(cfg)
    txns = sorted(set(keys.values()))
    members = {t: [i for i in range(n) if keys[i] == t] for t in txns}

    def ov(a, b):
        return a[0] < b[1] and b[0] < a[1]

    broken = []
    # what was applied, from token counts: a transaction is "applied" when its tokens are in the output.
    # With equal tokens in several transactions the attribution is ambiguous: search for a consistent one.
    import itertools as it

    cand = []
    for mask in it.product([False, True], repeat=len(txns)):
        acc = [t for t, m in zip(txns, mask) if m]
        cnt = {"A": 0, "B": 0}
        for t in acc:
            seen = set()
            for i in members[t]:
                k = (conc[i], cfg[i][2])
                if k not in seen:
                    seen.add(k)
                    cnt[cfg[i][2]] += 1
        if all(out.count(TOKEN[x]) == cnt[x] for x in "AB"):
            cand.append(acc)
    if not cand:
        return ["atomic: token counts in the output match no set of whole transactions"]
    verdicts = []
    for acc in cand:
        b = []
        rs = [(conc[i], t) for t in acc for i in members[t]]
        for (r1, t1), (r2, t2) in it.combinations(rs, 2):
            if ov(r1, r2) and not (t1 == t2 and r1 == r2):
                b.append("disjoint: applied rewrites %s and %s overlap" % (r1, r2))
        for t in txns:
            ms = members[t]
            touches_strict = any(conc[i][0] < le and ls < conc[i][1] for i in ms for (ls, le, ann) in lines if ann)
            if t in acc:
                if touches_strict:
                    b.append("ignored line rewritten by applied transaction %s" % (t,))
                continue
            ok = any(ov(conc[i], conc[j]) for i, j in it.combinations(ms, 2))
            ok = ok or any(conc[i][0] <= le and ls <= conc[i][1] for i in ms for (ls, le, ann) in reason_lines if ann)
            for u in txns:
                if u == t or not _precedes(u, t):
                    continue
                mu = members[u]
                ok = ok or any(ov(conc[i], conc[j]) for i in ms for j in mu)
                ok = ok or ({(conc[i], cfg[i][2]) for i in ms} == {(conc[j], cfg[j][2]) for j in mu})
            if not ok:
                b.append("transaction %s dropped without a stated reason" % (t,))
        verdicts.append(b)
    best = min(verdicts, key=len)
    return best


def ob_rollback(n_rewrites):
    """Validity rollback on the real _apply_rewrites with solver-chosen outcomes."""
    import z3
    from vk import sym
    from pyrefact import core, processing

    def harness(eng):
        valid = {}

        def is_valid(text):
            if text not in valid:
                valid[text] = eng.var("valid_%s" % text, "bool")
            return sym.SymBool(valid[text])

        counter = [0]

        def do_rewrite(source, rewrite, *, fix_function_name=""):
            counter[0] += 1
            changed = sym.SymBool(eng.var("changed_%d" % counter[0], "bool"))
            return "T%d" % counter[0] if changed else source

        def subst(tag):
            def f(original, new):
                changed = sym.SymBool(eng.var("restyled_%s" % tag, "bool"))
                return new + "_" + tag if changed else new
            return f

        saved = (processing._do_rewrite, core.is_valid_python, processing._substitute_original_strings,
                 processing._substitute_original_fstrings)
        processing._do_rewrite = do_rewrite
        core.is_valid_python = is_valid
        processing._substitute_original_strings = subst("s")
        processing._substitute_original_fstrings = subst("f")
        try:
            T = processing._Transaction(0, 0, "r")
            rewrites = [(T, (core.Range(i, i + 1), processing._Rewrite(core.Range(i, i + 1), "x")))
                        for i in reversed(range(n_rewrites))]
            src = "SRC"
            out = processing._apply_rewrites(src, rewrites)
        finally:
            (processing._do_rewrite, core.is_valid_python, processing._substitute_original_strings,
             processing._substitute_original_fstrings) = saved
        # the pass leaves the text exactly as it was unless the combined result parses
        if out is src:
            eng.claim(True, info={"clause": "rollback"})
        else:
            v = valid.get(out)
            eng.claim(v if v is not None else False, info={"clause": "rollback", "out": out})

    eng = sym.Engine(budget_s=30, max_cex=4)
    return eng.explore(harness)


# ----------------------------------------------------------------------------------------------------


def obligations(tier, seed):
    from vk.common import Obligation

    rnd = random.Random(seed)
    obs = []
    for n in (1, 2):
        for cfg in _configs(n):
            for ann in (True, False, "odd"):
                if ann == "odd" and n == 1:
                    continue
                obs.append(Obligation("sched/%s/%s" % (cfg_id(cfg), {True: "ann", False: "plain", "odd": "odd"}[ann]), ob_schedule,
                                      {"cfg": cfg, "annotated": ann}, hard_timeout=150,
                                      sample={"rewrites": cfg, "annotated_line": ann}))
    for cfg in _configs_three_numbers():
        obs.append(Obligation("sched3/%s/plain" % cfg_id(cfg), ob_schedule, {"cfg": cfg, "annotated": False},
                              hard_timeout=200, sample={"rewrites": cfg, "annotated_line": False}))
    c3 = _configs(3)
    if tier == "quick":
        pick = rnd.sample(c3, 40)
        for cfg in pick:
            obs.append(Obligation("sched/%s/ann" % cfg_id(cfg), ob_schedule, {"cfg": cfg, "annotated": True},
                                  hard_timeout=200, sample={"rewrites": cfg, "annotated_line": True}))
    else:
        for cfg in c3:
            obs.append(Obligation("sched/%s/ann" % cfg_id(cfg), ob_schedule,
                                  {"cfg": cfg, "annotated": True, "budget_s": 300.0}, hard_timeout=400,
                                  sample={"rewrites": cfg, "annotated_line": True}))
        c4 = _configs(4)
        for cfg in rnd.sample(c4, 48):
            obs.append(Obligation("sched/%s/plain" % cfg_id(cfg), ob_schedule,
                                  {"cfg": cfg, "annotated": False, "budget_s": 600.0, "e2e": True},
                                  hard_timeout=700, sample={"rewrites": cfg, "annotated_line": False}))
    for k in (1, 2, 3, 4):
        obs.append(Obligation("rollback/%d" % k, ob_rollback, {"n_rewrites": k}, hard_timeout=60,
                              sample={"rewrites": k, "outcomes": "solver-chosen"}))
    # longest first for better packing
    obs.sort(key=lambda o: -len(o.params.get("cfg", [])))
    return obs


def case_of(ob, r, cex):
    info = cex.get("info") or {}
    clause = info.get("clause", "?")
    if ob.oid.startswith("rollback/"):
        return {"kind": "rollback", "model": cex["model"], "n": ob.params["n_rewrites"],
                "key": "%s|rollback" % ob.oid, "info": info}
    cfg = ob.params["cfg"]
    n = len(cfg)
    conc = [(cex["model"].get("a%d" % i, 0), cex["model"].get("b%d" % i, 0)) for i in range(n)]
    return {"kind": "sched", "cfg": cfg, "annotated": ob.params["annotated"], "ranges": conc, "clause": clause,
            "key": "%s|%s" % (ob.oid, clause)}


def replay(case):
    from pyrefact import core, processing

    if case["kind"] == "rollback":
        # force the stub outcomes of the model on the real function
        model = case["model"]
        n = case["n"]
        counter = [0]

        def do_rewrite(source, rewrite, *, fix_function_name=""):
            counter[0] += 1
            return "T%d" % counter[0] if model.get("changed_%d" % counter[0]) else source

        def subst(tag):
            return lambda original, new: new + "_" + tag if model.get("restyled_%s" % tag) else new

        def is_valid(text):
            return bool(model.get("valid_%s" % text, False))

        saved = (processing._do_rewrite, core.is_valid_python, processing._substitute_original_strings,
                 processing._substitute_original_fstrings)
        processing._do_rewrite = do_rewrite
        core.is_valid_python = is_valid
        processing._substitute_original_strings = subst("s")
        processing._substitute_original_fstrings = subst("f")
        try:
            T = processing._Transaction(0, 0, "r")
            rewrites = [(T, (core.Range(i, i + 1), processing._Rewrite(core.Range(i, i + 1), "x")))
                        for i in reversed(range(n))]
            src = "SRC"
            out = processing._apply_rewrites(src, rewrites)
        finally:
            (processing._do_rewrite, core.is_valid_python, processing._substitute_original_strings,
             processing._substitute_original_fstrings) = saved
        bad = out is not src and not is_valid(out)
        return {"reproduced": bad, "detail": "_apply_rewrites returned %r which the validity oracle rejects" % out}

    cfg = [tuple(x) for x in case["cfg"]]
    conc = [tuple(x) for x in case["ranges"]]
    ann = case["annotated"]
    # the scheduler itself, concretely
    src, lines, lo, hi = _layout(ann)
    groups = sorted({g for g, _, _ in cfg})
    funcs = []
    for g in groups:
        def rule(source, g=g):
            for i, (gg, t, txt) in enumerate(cfg):
                if gg == g:
                    r = core.Range(conc[i][0], conc[i][1])
                    yield (r, TOKEN[txt]) if t is None else (r, TOKEN[txt], t)

        rule.__name__ = "rule%d" % g
        funcs.append((rule, [src], {}))
    res = processing._schedule_rewrites(src, funcs)
    sched = [(tuple(rng), rw.new) for (_t, (rng, rw)) in res]
    broken = []
    if check_binding():
        for (r1, _), (r2, _) in itertools.combinations(sched, 2):
            if not r2[1] <= r1[0]:
                broken.append("application order: %s scheduled before %s" % (r1, r2))
    for (r1, _), (r2, _) in itertools.combinations(sched, 2):
        if r1[0] < r2[1] and r2[0] < r1[1]:
            broken.append("disjoint: scheduled rewrites %s and %s overlap" % (r1, r2))
    out = run_e2e(cfg, conc, ann)
    e2e_broken = spec_concrete(cfg, conc, ann, out)
    want = {x: sum(1 for _r, txt in sched if txt == TOKEN[x]) for x in "AB"}
    got = {x: out.count(TOKEN[x]) for x in "AB"}
    if want != got:
        e2e_broken.append("scheduled rewrites not applied all together: scheduled %s, tokens in output %s" % (want, got))
    key = None
    if e2e_broken and not broken:
        # region: a rewrite that removes the newline in front of an annotated line joins that line with
        # the text before it; later rewrites of the pass that touch the *joined* line are then skipped.
        ext, joined = [], []
        for (ls, le, a_) in lines:
            if a_ and any(a < b == ls and src[b - 1] == "\n" for (a, b), _t in sched):
                prev = max(l0 for (l0, _l1, _a) in lines if l0 < ls)
                ext.append((prev, le, True))
                joined.append((prev, ls))
            else:
                ext.append((ls, le, a_))
        if joined:
            def within(r):
                return any(p0 <= r[0] and r[1] <= p1 for p0, p1 in joined) and not (r[0] < r[1] and r[1] in [p1 for _p, p1 in joined])
            slack = {x: sum(1 for r, txt in sched if txt == TOKEN[x] and within(r)) for x in "AB"}
            explained = all(0 <= want[x] - got[x] <= slack[x] for x in "AB")
            if explained and not spec_concrete(cfg, conc, ann, out, reason_lines=ext):
                key = "%s|e2e:joins-ignored-line" % case["oid"]
    broken += e2e_broken
    return {"reproduced": bool(broken), "key": key,
            "detail": "rewrites=%s ranges=%s annotated=%s -> scheduled=%s; output=%r; broken: %s" % (
                cfg, conc, ann, sched, out, "; ".join(broken))}
