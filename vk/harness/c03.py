"""C03 - valid Python in, valid Python out; never write a broken file.

The universal claim over all texts needs Python's grammar over symbolic strings (out of reach: ast.parse is C).
Decided instead: the guard logic the property is anchored in, on the real functions with the un-encodable
callee replaced by a solver-chosen outcome, plus a pool obligation.
(a) real `processing._apply_rewrites`, (b) real `processing._replace_nodes`: `_do_rewrite` returns an abstract
    text per call, validity of every abstract text is a solver Boolean -> the result is valid or the input object;
(c) real `main.format_file` with `format_code` returning a solver-chosen element of {same, different valid,
    different invalid} on {valid, invalid} content, file system in memory: written iff the text differs and
    (result valid or original invalid); never written when equal;
(d) the public `processing.fix` / `chain` driven with synthetic rules whose replacement texts are solver-chosen
    from {valid token, '(', empty, statement}: the output parses whenever the input does (ranges symbolic);
(e) pool: on every path of the symbolic-literal run of each rule / format_code over the shared skeleton pool
    (incl. the rules that edit text directly) and of pattern_matching.sub, the output is accepted by ast.parse."""
from __future__ import annotations

import random

from vk import pool, poolfam
from vk.common import Obligation

PROPERTY = "C03"
LEVEL = "model_checking"
ENCODED = ["pyrefact.processing:_apply_rewrites", "pyrefact.processing:_replace_nodes", "pyrefact.main:format_file",
           "pyrefact.processing:fix", "pyrefact.processing:chain", "pyrefact.processing:_do_rewrite",
           "pyrefact.processing:_schedule_rewrites", "pyrefact.main:format_code"]
STUBS = ["(a)(b): processing._do_rewrite, core.is_valid_python, _substitute_original_(f)strings return solver-chosen outcomes",
         "(c): main.format_code returns a solver-chosen outcome; builtins.open is an in-memory file system; "
         "core.is_valid_python is a solver Boolean per text"]
ASSUMPTIONS = ["(e) has a degenerate symbolic dimension where no decision of the rule depends on a literal: evidence "
               "reports branched_on per obligation", "outcome classes of a rewrite: unchanged / other valid / invalid"]
OUTSIDE = ["validity of text produced for inputs outside the pool", "real-world corpus files"]


def bounds(tier):
    return {"rewrites": "<= 4", "outcome_classes": 3, "fix_rule_rewrites": 2,
            "pool": 150 if tier == "quick" else "whole pool"}


def ob_replace_nodes(n):
    import ast

    from vk import sym
    from pyrefact import core, processing

    def harness(eng):
        valid = {}

        def is_valid(text):
            if text not in valid:
                valid[text] = eng.var("valid_%s" % text, "bool")
            return sym.SymBool(valid[text])

        counter = [0]

        def do_rewrite(source, rewrite, *, fix_function_name=""):
            counter[0] += 1
            return "T%d" % counter[0] if sym.SymBool(eng.var("changed_%d" % counter[0], "bool")) else source

        saved = (processing._do_rewrite, core.is_valid_python)
        processing._do_rewrite, core.is_valid_python = do_rewrite, is_valid
        try:
            src = "\n".join("x%d = %d" % (i, i) for i in range(n)) + "\n"
            tree = ast.parse(src)
            repl = {tree.body[i].value: "0" for i in range(n)}
            out = processing._replace_nodes(src, repl)
        finally:
            processing._do_rewrite, core.is_valid_python = saved
        if out is src:
            eng.claim(True)
        else:
            v = valid.get(out)
            eng.claim(v if v is not None else False, info={"what": "_replace_nodes returned unchecked text", "out": out})

    return sym.Engine(budget_s=30, max_cex=3).explore(harness)


def ob_format_file():
    """main.format_file write guard, in-memory file system, solver-chosen format_code outcome."""
    import builtins
    import io

    import importlib

    from vk import sym
    from pyrefact import core

    main = importlib.import_module("pyrefact.main")

    def harness(eng):
        orig_valid = sym.SymBool(eng.var("orig_valid", "bool"))
        same = sym.SymBool(eng.var("result_same_text", "bool"))
        res_valid = sym.SymBool(eng.var("result_valid", "bool"))
        files = {"/mem/a.py": "ORIGINAL"}
        writes = []

        class W(io.StringIO):
            def __init__(self, name):
                super().__init__()
                self.name_ = name

            def close(self):
                writes.append((self.name_, self.getvalue()))
                files[self.name_] = self.getvalue()
                super().close()

        def fake_open(name, mode="r", **kw):
            name = str(name)
            if "w" in mode:
                return W(name)
            return io.StringIO(files[name])

        def fake_format_code(source, **kw):
            return source if same else "RESULT"

        def fake_valid(text):
            return orig_valid if text == "ORIGINAL" else res_valid

        saved = (main.format_code, core.is_valid_python, main.__dict__.get("open"))
        main.format_code, core.is_valid_python = fake_format_code, fake_valid
        main.__dict__["open"] = fake_open
        try:
            from pathlib import Path

            real_resolve = Path.resolve
            ret = main.format_file(Path("/mem/a.py"))
        finally:
            main.format_code, core.is_valid_python = saved[0], saved[1]
            if saved[2] is None:
                del main.__dict__["open"]
            else:
                main.__dict__["open"] = saved[2]
        m = eng.model()
        S, OV, RV = (m.eval(eng.var(n, "bool"), model_completion=True) for n in ("result_same_text", "orig_valid", "result_valid"))
        import z3

        S, OV, RV = z3.is_true(S), z3.is_true(OV), z3.is_true(RV)
        should_write = (not S) and (RV or not OV)
        wrote = bool(writes)
        ok = wrote == should_write and (not wrote or writes[0][1] == "RESULT") and bool(ret) == wrote
        eng.claim(ok, info={"what": "write guard", "same": S, "orig_valid": OV, "result_valid": RV, "wrote": wrote,
                            "returned": repr(ret)})

    return sym.Engine(budget_s=30, max_cex=4).explore(harness)


FIX_SRC = "aaa = 1\nbbb = [2,\n       3]\nccc = 4\n"
REPLS = ["ZZ", "(", "", "q = 9\n"]


def ob_fix(n_rewrites, use_chain):
    """processing.fix / chain with synthetic rules: ranges symbolic (concretised at the slice), replacement
    texts solver-chosen; valid in => valid out."""
    import ast
    import z3

    from vk import instrument, sym
    from pyrefact import core, processing

    def harness(eng):
        rs = []
        for i in range(n_rewrites):
            a, b, k = eng.var("a%d" % i), eng.var("b%d" % i), eng.var("k%d" % i)
            eng.require(z3.And(0 <= a, a <= b, b <= len(FIX_SRC), 0 <= k, k < len(REPLS)))
            rs.append((a, b, k))

        def rule(source):
            if source != FIX_SRC:
                return
            for a, b, k in rs:
                yield core.Range(sym.SymInt(a), sym.SymInt(b)), REPLS[sym.SymInt(k).__index__()]

        rule.__name__ = "rule"
        try:
            out = (processing.chain([rule]) if use_chain else processing.fix(rule))(FIX_SRC)
        except Exception as e:  # noqa: BLE001 - C04's business
            eng.path_state["crash"] = repr(e)
            eng.claim(True)
            return
        try:
            ast.parse(out)
            eng.claim(True)
        except SyntaxError:
            m = eng.model()
            eng.claim(False, info={"what": "fix() returned text that does not parse", "out": out,
                                   "rewrites": [[sym.concretize(x, m) for x in r] for r in rs]})

    eng = sym.Engine(budget_s=200, max_paths=400000, max_cex=3)
    eng.max_enum = 100000
    eng.path_hooks.append(instrument.reset_caches)
    return eng.explore(harness)


SUB_CASES = [("x = {{v}}", "x = ({{v}}", "x = 7000\ny = 2\n"), ("{{a}} + {{b}}", "{{a}} +", "z = 7000 + 7001\n"),
             ("f({{a}})", "", "f(7000)\nif c:\n    f(7001)\n"), ("{{t}} = {{v}}", "", "if c:\n    x = 7000\n"),
             ("{{t}} = {{v}}", "{{t}} = {{v}}\n{{t}} += 1", "if c:\n    x = 7000\nelse:\n    y = 7001\n"),
             ("return {{v}}", "", "def f():\n    return 7000\n"), ("7000", "", "x = [7000, 7001]\n"),
             ("x = {{v}}", "{{v}}", "x = 7000\n"), ("{{a}} + {{b}}", "{{a}}, {{b}}", "f(7000 + 7001)\n")]


def ob_sub(case_index):
    import ast

    from vk import instrument, markers, sym
    from pyrefact import pattern_matching as pm

    pat, repl, src = SUB_CASES[case_index]
    used = markers.markers_in(src + pat)

    def harness(eng):
        markers.declare(eng, used)
        try:
            out = pm.sub(pat, repl, src)
        except Exception:  # noqa: BLE001
            eng.claim(True)
            return
        try:
            ast.parse(out)
            eng.claim(True)
        except SyntaxError:
            eng.claim(False, info={"what": "sub() returned text that does not parse", "out": out})

    eng = sym.Engine(budget_s=30, max_cex=2)
    eng.path_hooks.append(instrument.reset_caches)
    return eng.explore(harness)


def obligations(tier, seed):
    from vk.harness import c10

    rnd = random.Random(seed)
    quick = tier == "quick"
    obs = []
    for k in (1, 2, 3, 4):
        obs.append(Obligation("apply_rewrites/%d" % k, c10.ob_rollback, {"n_rewrites": k}, sample={"rewrites": k}))
        obs.append(Obligation("replace_nodes/%d" % k, ob_replace_nodes, {"n": k}, sample={"replacements": k}))
    obs.append(Obligation("format_file", ob_format_file, {}, sample={"outcomes": "same/different x valid/invalid"}))
    obs.append(Obligation("fix/1", ob_fix, {"n_rewrites": 1, "use_chain": False}, hard_timeout=400, sample={"source": FIX_SRC}))
    obs.append(Obligation("chain/1", ob_fix, {"n_rewrites": 1, "use_chain": True}, hard_timeout=400, sample={"source": FIX_SRC}))
    for i in range(len(SUB_CASES)):
        obs.append(Obligation("sub/%d" % i, ob_sub, {"case_index": i}, sample={"case": SUB_CASES[i]}))
    # (e) pool
    sks = poolfam.pool_skeletons(tier, seed)
    de = poolfam.direct_edit_skeletons()
    jobs = []
    for sk in sks:
        tr = sk.meta.get("rule")
        if tr:
            jobs.append((sk, tr))
        jobs.append((sk, "format_code:safe=1"))
        jobs.append((sk, "format_code:safe=0"))
    for sk in de:
        jobs.append((sk, sk.meta["rule"]))
        jobs.append((sk, "format_code:safe=0"))
    if quick:
        rules = [t for t in poolfam.scheduled_rules() if "numpy" not in t and "pandas" not in t]
        for sk in rnd.sample(sks, 8):
            for tr in rules:
                jobs.append((sk, tr))
    else:
        rules = [t for t in poolfam.scheduled_rules() if "numpy" not in t and "pandas" not in t]
        for sk in sks[::4]:
            for tr in rules:
                jobs.append((sk, tr))
    for sk, tr in jobs:
        obs.append(Obligation("pool/%s/%s" % (tr.split(":", 1)[1][:40], sk.sid), pool.ob_prop,
                              {"skeleton": sk.to_json(), "transform": tr, "mode": "valid"}, hard_timeout=150,
                              sample={"program": sk.text[-300:], "transform": tr}))
    return obs


def case_of(ob, r, cex):
    info = cex.get("info") or {}
    if ob.oid.startswith("pool/"):
        return pool.prop_case(ob, r, cex)
    if ob.oid.startswith("apply_rewrites/"):
        from vk.harness import c10

        return c10.case_of(Obligation("rollback/%d" % ob.params["n_rewrites"], None, ob.params), r, cex)
    return {"kind": ob.oid.split("/")[0], "params": ob.params, "model": cex["model"], "info": info,
            "key": "%s|%s" % (ob.oid, info.get("what", "?"))}


def replay(case):
    import ast

    from pyrefact import core, processing

    k = case["kind"]
    if k == "prop":
        return pool.prop_replay(case)
    if k == "rollback":
        from vk.harness import c10

        return c10.replay(case)
    m = case["model"]
    if k == "replace_nodes":
        n = case["params"]["n"]
        counter = [0]

        def do_rewrite(source, rewrite, *, fix_function_name=""):
            counter[0] += 1
            return "T%d" % counter[0] if m.get("changed_%d" % counter[0]) else source

        def is_valid(text):
            return bool(m.get("valid_%s" % text, False))

        saved = (processing._do_rewrite, core.is_valid_python)
        processing._do_rewrite, core.is_valid_python = do_rewrite, is_valid
        try:
            src = "\n".join("x%d = %d" % (i, i) for i in range(n)) + "\n"
            tree = ast.parse(src)
            out = processing._replace_nodes(src, {tree.body[i].value: "0" for i in range(n)})
        finally:
            processing._do_rewrite, core.is_valid_python = saved
        return {"reproduced": out is not src and not is_valid(out), "detail": "_replace_nodes returned %r, rejected by the validity oracle" % out}
    if k == "format_file":
        import io
        from pathlib import Path

        import importlib

        main = importlib.import_module("pyrefact.main")
        S, OV, RV = bool(m.get("result_same_text")), bool(m.get("orig_valid")), bool(m.get("result_valid"))
        files = {"/mem/a.py": "ORIGINAL"}
        writes = []

        class W(io.StringIO):
            def close(self):
                writes.append(self.getvalue())
                super().close()

        def fake_open(name, mode="r", **kw):
            return W() if "w" in mode else io.StringIO(files[str(name)])

        saved = (main.format_code, core.is_valid_python)
        main.format_code = lambda source, **kw: source if S else "RESULT"
        core.is_valid_python = lambda text: OV if text == "ORIGINAL" else RV
        main.__dict__["open"] = fake_open
        try:
            ret = main.format_file(Path("/mem/a.py"))
        finally:
            main.format_code, core.is_valid_python = saved
            del main.__dict__["open"]
        should = (not S) and (RV or not OV)
        bad = bool(writes) != should or bool(ret) != bool(writes)
        return {"reproduced": bad, "detail": "format_file: same_text=%s orig_valid=%s result_valid=%s -> wrote=%s returned=%r (should write: %s)" % (
            S, OV, RV, bool(writes), ret, should)}
    if k in ("fix", "chain"):
        n = case["params"]["n_rewrites"]
        rs = [(m["a%d" % i], m["b%d" % i], m["k%d" % i]) for i in range(n)]

        def rule(source):
            if source != FIX_SRC:
                return
            for a, b, kk in rs:
                yield core.Range(a, b), REPLS[kk]

        rule.__name__ = "rule"
        out = (processing.chain([rule]) if k == "chain" else processing.fix(rule))(FIX_SRC)
        try:
            ast.parse(out)
            return {"reproduced": False, "detail": "parses"}
        except SyntaxError:
            return {"reproduced": True, "detail": "processing.%s with rewrites %s on %r returned %r, which does not parse" % (
                k, [(a, b, REPLS[kk]) for a, b, kk in rs], FIX_SRC, out)}
    if k == "sub":
        from vk import markers
        from pyrefact import pattern_matching as pm

        pat, repl, src = SUB_CASES[case["params"]["case_index"]]
        values = {int(kk[1:]): v for kk, v in m.items() if kk.startswith("c") and kk[1:].isdigit()}
        pat, src = markers.substitute(pat, values), markers.substitute(src, values)
        out = pm.sub(pat, repl, src)
        try:
            ast.parse(out)
            return {"reproduced": False, "detail": "parses"}
        except SyntaxError:
            return {"reproduced": True, "detail": "sub(%r, %r, %r) = %r does not parse" % (pat, repl, src, out)}
    raise ValueError(k)


def evidence_extra(obligations, results):
    pool_obs = [r for ob, r in zip(obligations, results) if ob.oid.startswith("pool/")]
    return {"pool_obligations": len(pool_obs), "pool_changed_text": sum(1 for r in pool_obs if r.get("fired")),
            "pool_branched": sum(1 for r in pool_obs if (r.get("notes") or {}).get("branched_on"))}
