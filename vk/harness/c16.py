"""C16 - code is treated as unreachable or pointless only when it really is.

(a) the analyses directly: for every statement shape S (nesting <= 2/3; constant tests, symbolic-literal
    tests `7000 > 7001`, tape conditions) the real `core.is_blocking(S)` is run in symbolic-literal mode; on
    every path where it answers True the program `for ..: S; print("fall")` (and `def ..: S; print("fall")`)
    is executed symbolically under every tape valuation and must never reach the print;
(b) the consumers (delete_unreachable_code, delete_pointless_statements, remove_redundant_else,
    swap_if_else, breakout_common_code_in_ifs, remove_dead_ifs) through symbolic translation validation on
    the same shapes followed by an observable statement, and on expression / simple statements built from
    pure, printing and transitively printing user functions (has_side_effect + safe_callable_names)."""
from __future__ import annotations

import ast
import random

from vk import families, pool
from vk.common import Obligation

PROPERTY = "C16"
LEVEL = "model_checking"
ENCODED = [
    "pyrefact.core:is_blocking", "pyrefact.core:_is_exception", "pyrefact.core:has_side_effect",
    "pyrefact.core:literal_value", "pyrefact.parsing:safe_callable_names", "pyrefact.fixes:delete_unreachable_code",
    "pyrefact.fixes:delete_pointless_statements", "pyrefact.fixes:remove_redundant_else", "pyrefact.fixes:swap_if_else",
    "pyrefact.fixes:breakout_common_code_in_ifs", "pyrefact.fixes:remove_dead_ifs",
]
STUBS = ["unknown conditions / iterables / call results come from a tape of fresh solver variables (residues of "
         "pairwise distinct integers >= 10**6)"]
ASSUMPTIONS = [
    "tape functions do not raise; loops are unrolled by fuel (300 ticks), tape <= 8 dynamic evaluations",
    "a path on which the original program raises or runs out of tape is outside the property's class",
]
OUTSIDE = ["nesting > 3", "generators, async, match statements", "exceptions thrown by opaque calls"]

CONSUMERS = ["rule:fixes.delete_unreachable_code", "rule:fixes.remove_redundant_else", "rule:fixes.swap_if_else",
             "rule:fixes.breakout_common_code_in_ifs", "rule:fixes.remove_dead_ifs",
             "rule:fixes.delete_pointless_statements"]


def bounds(tier):
    return {"nesting": 2 if tier == "quick" else 3, "tape": 8, "fuel": 300,
            "consumer_sample": 250 if tier == "quick" else "all shapes"}


def _program(shape, ctx):
    if ctx == "loop":
        return families.c16_program(shape)
    body = "def main(p):\n%s\n    print(\"fall\", 0)\n    return 5\n" % families._ind(shape, 1)
    return families.prelude(8) + families.C16_PRELUDE_EXTRA + body + "\n\nprint(main(inp()))\n"


def ob_blocking(shape, ctx, lits):
    from vk import instrument, markers, sym, symtv
    from pyrefact import core

    text = _program(shape, ctx)
    try:
        compile(text, "<shape>", "exec")
    except SyntaxError:
        return {"status": "confirmed", "paths": 0, "checks": 0, "solver_s": 0.0, "cexs": [], "claims": 0,
                "allow_vacuous": True, "trivial": True, "notes": {"syntax": "shape not valid in this context"}}
    sk = pool.Skeleton("b", text, lits={int(k): tuple(v) for k, v in lits.items()}, tape=8, fuel=300)
    stats = {"blocking_paths": 0, "crash": None}

    def harness(eng):
        sk.declare(eng)
        tree = core.parse(text)
        main = [n for n in tree.body if isinstance(n, ast.FunctionDef) and n.name == "main"][0]
        node = main.body[0].body[0] if ctx == "loop" else main.body[0]
        try:
            blk = core.is_blocking(node)
        except Exception as e:  # noqa: BLE001  (totality is C04's business)
            stats["crash"] = repr(e)[:200]
            return
        if not blk:
            eng.claim(True)
            return
        stats["blocking_paths"] += 1
        st, trace, exc = symtv.run_program(text, fuel=300)
        fell = any(len(e) >= 1 and e[0] == "fall" for e in trace)
        eng.claim(not fell, info={"what": "is_blocking is True but the next statement is reached", "status": st})

    eng = sym.Engine(budget_s=40, max_paths=3000, max_cex=2)
    eng.path_hooks.append(instrument.reset_caches)
    d = eng.explore(harness).as_dict()
    d["notes"] = stats
    if not stats["blocking_paths"]:
        d["trivial"] = True
    return d


def ob_blocking_batch(batch):
    agg = {"status": "confirmed", "paths": 0, "branches": 0, "checks": 0, "solver_s": 0.0, "claims": 0, "cexs": [],
           "inconclusive": [], "blocking_shapes": 0, "crashes": []}
    for sid, shape, ctx, lits in batch:
        d = ob_blocking(shape, ctx, lits)
        for k in ("paths", "branches", "checks", "claims"):
            agg[k] += d.get(k, 0)
        agg["solver_s"] += d.get("solver_s", 0.0)
        from vk import sym as _sym
        _sym.merge_xcheck(agg, d)
        if d.get("notes", {}).get("blocking_paths"):
            agg["blocking_shapes"] += 1
        if d.get("notes", {}).get("crash"):
            agg["crashes"].append("%s: %s" % (sid, d["notes"]["crash"]))
        for c in d.get("cexs", []):
            c.update({"sid": sid, "shape": shape, "ctx": ctx, "lits": lits})
            agg["cexs"].append(c)
        agg["inconclusive"] += ["%s: %s" % (sid, x) for x in d.get("inconclusive", [])]
    if agg["cexs"]:
        agg["status"] = "refuted"
    elif agg["inconclusive"]:
        agg["status"] = "inconclusive"
    return agg


def _lits_for(shape):
    lits = {}
    for m, b in ((7000, (0, families.BIG)), (7001, (0, families.BIG)), (7002, (0, 3))):
        if str(m) in shape:
            lits[str(m)] = list(b)
    return lits


def obligations(tier, seed):
    rnd = random.Random(seed)
    quick = tier == "quick"
    shapes = families.c16_shapes(tier)
    jobs = []
    for sid, shape in shapes:
        for ctx in ("loop", "func"):
            jobs.append((sid, shape, ctx, _lits_for(shape)))
    obs = []
    B = 40
    rnd.shuffle(jobs)
    for i in range(0, len(jobs), B):
        chunk = jobs[i:i + B]
        obs.append(Obligation("blocking-batch/%d" % (i // B), ob_blocking_batch, {"batch": chunk}, hard_timeout=1200,
                              sample={"shape": chunk[0][1], "context": chunk[0][2]}))
    sks = list(families.c16_skeletons(tier))
    pick = sks if not quick else rnd.sample(sks, 250)
    for sk in pick:
        for rule in CONSUMERS:
            obs.append(Obligation("%s/%s" % (rule.split(".")[-1], sk.sid), pool.ob_tv,
                                  dict(skeleton=sk.to_json(), transform=rule, budget_s=40.0, max_cex=2),
                                  hard_timeout=90, sample={"program": sk.text[-400:], "transform": rule}))
    for sk in families.c16_pointless_skeletons():
        obs.append(Obligation("pointless/%s" % sk.sid, pool.ob_tv,
                              dict(skeleton=sk.to_json(), transform=CONSUMERS[5], budget_s=40.0, max_cex=2),
                              hard_timeout=90, sample={"program": sk.text[-300:], "transform": CONSUMERS[5]}))
    if not quick:
        for sk in rnd.sample(sks, min(len(sks), 600)):
            obs.append(Obligation("pipeline/%s" % sk.sid, pool.ob_tv,
                                  dict(skeleton=sk.to_json(), transform="format_code:safe=1", budget_s=120.0, max_cex=2),
                                  hard_timeout=200, sample={"program": sk.text[-400:], "transform": "format_code:safe=1"}))
    return obs


def case_of(ob, r, cex):
    if "shape" in cex:
        return {"kind": "blocking", "shape": cex["shape"], "ctx": cex["ctx"], "lits": cex["lits"], "model": cex["model"],
                "key": "blocking:%s/%s|falls-through" % (cex["sid"], cex["ctx"])}
    return pool.tv_case(ob, r, cex)


def replay(case):
    if case["kind"] != "blocking":
        return pool.tv_replay(case)
    from pyrefact import core
    from vk import symtv

    text = symtv.concrete_program(_program(case["shape"], case["ctx"]), case["model"])
    tree = ast.parse(text)
    main = [n for n in tree.body if isinstance(n, ast.FunctionDef) and n.name == "main"][0]
    node = main.body[0].body[0] if case["ctx"] == "loop" else main.body[0]
    blk = core.is_blocking(node)
    st, out = symtv.run_concrete(text)
    fell = "fall " in out
    return {"reproduced": bool(blk) and fell,
            "detail": "is_blocking(%r) = %s, yet running the program prints %r (status %s)" % (
                ast.unparse(node)[:120], blk, out[-120:], st)}


def evidence_extra(obligations, results):
    blk = sum(r.get("blocking_shapes", 0) for r in results)
    fired = sum(1 for r in results if r.get("fired"))
    crashes = [c for r in results for c in r.get("crashes", [])]
    return {"shapes_judged_blocking": blk, "consumer_fired_on": fired, "analysis_crashes_seen(C04)": crashes[:10]}
