"""C08 - preserved names survive, within a file and across files.

A library L (chunks of the C07 family) and a client K that uses a subset of L's definitions in each access form
(`from lib import f`, `import lib; lib.f`, `obj.attr`), calls them with tape inputs and prints the results. The
preserve set is computed by the real `main._used_names_in_file(client)`; T is (api) the real
`format_code(L, preserve=S)` in unsafe mode, applied once and twice, run in symbolic-literal mode, and (cli) the real
`main.main([lib.py, '--preserve', client.py])` in a temporary directory (pool stubbed in-process). The statement's
'dependent files keep working unchanged' is the oracle: symbolic translation validation of L;K against L';K - a
deleted or renamed definition is a NameError / ImportError / AttributeError on some path, a preserved-but-broken
one a trace mismatch for an input the solver finds."""
from __future__ import annotations

import itertools
import random
import re

from vk import pool
from vk.common import Obligation
from vk.harness.c07 import CHUNKS

PROPERTY = "C08"
LEVEL = "translation_validation"
ENCODED = ["pyrefact.main:_used_names_in_file", "pyrefact.main:_used_names_in_files", "pyrefact.main:format_files",
           "pyrefact.main:format_code", "pyrefact.main:main", "pyrefact.fixes:delete_unused_functions_and_classes",
           "pyrefact.fixes:align_variable_names_with_convention", "pyrefact.fixes:undefine_unused_variables",
           "pyrefact.fixes:remove_duplicate_functions", "pyrefact.object_oriented:move_staticmethod_static_scope"]
STUBS = ["cli path: multiprocessing.Pool is an in-process object with the documented starmap contract"]
ASSUMPTIONS = ["client inputs in -3..3 (tape residues); library literals all naturals < 10**6 (symbolic)",
               "the cli path runs pyrefact concretely on the files (markers are ordinary literals there); both paths are "
               "validated symbolically afterwards"]
OUTSIDE = ["names reachable only through getattr / strings", "more than 6 definitions per library"]

USES = {
    "unused_fn": ["print(L.unused_fn(inp()))"],
    "camel_fn": ["print(L.camelCaseFn(inp()))"],
    "helper_used": ["print(L.helper(inp()), L.RESULT)", "print(L.RESULT)"],
    "dups": ["print(L.dup_one(inp()))", "print(L.dup_two(inp()))", "print(L.dup_one(inp()), L.dup_two(inp()))"],
    "selfless": ["t = L.Tool()\nprint(t.run(inp()), t.other(), L.Tool.attr)", "print(L.Tool().other())"],
    "static": ["print(L.Box.make(inp()))", "print(isinstance(L.Box.build(), L.Box))"],
    "unused_cls": ["print(L.Unused.__name__)"],
    "camel_var": ["print(L.someValue)"],
    "upper": ["print(L.CONST)"],
    "lower": ["print(L.value, L.other_value)"],
    "private": ["print(L._private)"],
    "nested": ["print(L.outer())"],
    "magic": ["m = L.M()\nprint(m.x, repr(m))"],
    "inherit": ["c = L.Child()\nprint(c.go(), c.extra(), L.Base().go())"],
    "tuple": ["print(L.first, L.second)"],
    "aug": ["print(L.counter)"],
    "annotated": ["print(L.typed)"],
    "dead": ["print(L.flag)"],
    "cfg": ["c = L.Cfg()\nprint(c.getSize(), L.Cfg.maxSize, L.Cfg.MIN)"],
    "shadow": ["print(L.x)"],
    "lambda": ["print(L.double(inp()))"],
    "chain": ["print(L.a, L.b)"],
    "unused_method_cls": ["s = L.Svc()\nprint(s.used())", "s = L.Svc()\nprint(s.never_called())"],
    "dup_cls": ["print(L.P().f(), L.Q().f())", "print(L.Q().f())"],
    "prop": ["print(L.R().val)"],
    "del_redefine": ["print(L.tmp)"],
    "const_repeat": ["print(L.A1, L.A5)"],
    "attr_twin": ["print(L.path, L.sep)", "print(L.path)"],
}
LIBNAME = "vk_lib"
CLIENT_PRELUDE = "TAPE = [%s]\n\n\ndef inp():\n    return TAPE.pop() %% 7 - 3\n\n\n"


def bounds(tier):
    return {"library_chunks": "1..3 of %d" % len(USES), "access_forms": ["module attribute", "from-import"],
            "passes": "format_code x1 / x2; CLI with MAX_MODULE_PASSES", "inputs": "-3..3"}


def make_client(chunks, picks, form):
    from vk import markers

    body = "\n".join(USES[c][p] for c, p in zip(chunks, picks))
    tape = ", ".join(str(markers.TAPE_BASE + i) for i in range(6))
    if form == "attr":
        head = "import %s as L\n\n" % LIBNAME
    elif form == "from_as":
        # every name imported under an alias of its own
        names = sorted(set(re.findall(r"\bL\.([A-Za-z_]\w*)", body)))
        head = "from %s import %s\n\n" % (LIBNAME, ", ".join("%s as vk_alias_%d" % (n, i) for i, n in enumerate(names)))
        for i, n in enumerate(names):
            body = re.sub(r"\bL\.%s\b" % re.escape(n), "vk_alias_%d" % i, body)
    elif form == "reexport":
        # the client only re-exports the names (imports them, lists them in __all__) and uses them through itself
        names = sorted(set(re.findall(r"\bL\.([A-Za-z_]\w*)", body)))
        head = "from %s import %s\n\n__all__ = %r\n\n" % (LIBNAME, ", ".join(names), names)
        body = "print(sorted(__all__))"
    else:
        names = sorted(set(re.findall(r"\bL\.([A-Za-z_]\w*)", body)))
        head = "from %s import %s\n\n" % (LIBNAME, ", ".join(names))
        body = re.sub(r"\bL\.([A-Za-z_]\w*)", r"\1", body)
    return head + CLIENT_PRELUDE % tape + body + "\n"


def run_pair(lib_text, client_text, fuel=500):
    """Execute library as module vk_lib, then the client; returns (status, trace, exc)."""
    import sys
    import types

    from vk import sym, symtv

    eng = sym.Engine.cur
    mt = eng.path_state.get("markers") if eng is not None else None
    tab = mt.tab if mt is not None else {}
    rec = symtv.Recorder()
    b = symtv.make_builtins(rec, fuel)
    mod = types.ModuleType(LIBNAME)
    try:
        code, used = symtv.compile_program(lib_text, tab, "<lib>")
        code2, used2 = symtv.compile_program(client_text, tab, "<client>")
    except SyntaxError as e:
        return "raised", rec.trace, e
    mod.__dict__["__builtins__"] = b
    for m in used:
        mod.__dict__["vkm_%d" % m] = sym.SymInt(tab[m])
    g = {"__builtins__": b, "__name__": "__main__"}
    for m in used2:
        g["vkm_%d" % m] = sym.SymInt(tab[m])
    saved = sys.modules.get(LIBNAME)
    sys.modules[LIBNAME] = mod
    try:
        exec(code, mod.__dict__)
        exec(code2, g)
        return "ok", rec.trace, None
    except symtv._Exit as e:
        return "exit", rec.trace, e
    except Exception as e:  # noqa: BLE001
        return "raised", rec.trace, e
    finally:
        if saved is None:
            sys.modules.pop(LIBNAME, None)
        else:
            sys.modules[LIBNAME] = saved


def _inline_pool():
    import types

    class Pool:
        def __init__(self, n):
            pass

        def __enter__(self):
            return self

        def __exit__(self, *a):
            return False

        def starmap(self, f, it):
            return [f(*t) for t in it]

    return types.SimpleNamespace(Pool=Pool, cpu_count=lambda: 1)


def transform_lib(lib_text, client_text, path, passes, layout="flat"):
    """The real preserve mechanism on files in a temporary directory (api: names -> format_code; cli: main.main)."""
    import contextlib
    import importlib
    import io
    import os
    import tempfile

    import pyrefact

    main = importlib.import_module("pyrefact.main")
    with tempfile.TemporaryDirectory() as d:
        # file layouts: flat (one folder); wholepkg (library and client in one folder that is formatted and preserved
        # as a whole); twotrees (library src/pkg/<lib>.py, client tests/pkg/<lib>.py: same tail in
        # two trees); twoclients (a second preserved client with the same dir/file tail as the first, using nothing)
        extra_clients = []
        if layout == "flat":
            lp, cp = os.path.join(d, LIBNAME + ".py"), os.path.join(d, "client.py")
        elif layout == "twotrees":
            lp, cp = os.path.join(d, "src", "pkg", LIBNAME + ".py"), os.path.join(d, "tests", "pkg", LIBNAME + ".py")
        elif layout == "wholepkg":
            # the whole folder is formatted and the whole folder is preserved (`pyrefact pkg/ --preserve pkg/`)
            lp, cp = os.path.join(d, "pkg", LIBNAME + ".py"), os.path.join(d, "pkg", "client.py")
        else:
            lp, cp = os.path.join(d, "lib", LIBNAME + ".py"), os.path.join(d, "svc_a", "checks", "smoke.py")
            extra_clients = [os.path.join(d, "svc_b", "checks", "smoke.py")]
        for pth in [lp, cp] + extra_clients:
            os.makedirs(os.path.dirname(pth), exist_ok=True)
        for pth in extra_clients:
            with open(pth, "w") as f:
                f.write("print('nothing used here')\n")
        with open(lp, "w") as f:
            f.write(lib_text)
        with open(cp, "w") as f:
            f.write(client_text)
        if path == "api":
            S = main._used_names_in_file(cp)
            out = lib_text
            for _ in range(passes):
                out = pyrefact.format_code(out, preserve=S)
            return out
        saved = main.mp
        main.mp = _inline_pool()
        try:
            with contextlib.redirect_stdout(io.StringIO()), contextlib.redirect_stderr(io.StringIO()):
                if layout == "wholepkg":
                    main.main([os.path.dirname(lp), "--preserve", os.path.dirname(lp), "--n_cores", "1"])
                else:
                    main.main([lp, "--preserve", cp, *extra_clients, "--n_cores", "1"])
        finally:
            main.mp = saved
        with open(lp) as f:
            return f.read()


def ob_client(chunks, picks, form, path, passes, layout="flat"):
    from vk import instrument, sym

    lib_text = "\n\n".join(CHUNKS[c] for c in chunks)
    client = make_client(chunks, picks, form)
    sk = pool.Skeleton("c08", lib_text + "\n" + client, tape=6)
    stats = {"changed": 0, "crash": 0, "outside": 0}

    def harness(eng):
        sk.declare(eng)
        if path == "cli":
            # the CLI run below is concrete (markers are ordinary literals in the files): concrete-literal mode
            for m in sk.lits:
                eng.require(eng.var("c%d" % m) == m)
        try:
            if path == "api":
                out = transform_lib(lib_text, client, "api", passes, layout)
            else:
                # concrete run of the CLI (no engine path during the worker call: markers stay ordinary literals)
                prev, sym.Engine.cur = sym.Engine.cur, None
                try:
                    instrument.reset_caches()
                    out = transform_lib(lib_text, client, "cli", passes, layout)
                finally:
                    sym.Engine.cur = prev
                    instrument.reset_caches()
        except instrument.MarkerEscape:
            raise sym.Unsupported("marker escaped")
        except Exception as e:  # noqa: BLE001
            stats["crash"] += 1
            stats["crash_sample"] = repr(e)[:200]
            return
        if out != lib_text:
            stats["changed"] += 1
        s1, t1, e1 = run_pair(lib_text, client)
        if s1 != "ok":
            stats["outside"] += 1
            stats["outside_sample"] = repr(e1)[:200]
            return
        s2, t2, e2 = run_pair(out, client)
        if s2 != "ok":
            eng.claim(False, info={"failure": "raises:%s" % type(e2).__name__, "exception": repr(e2)[:200], "after": out})
            return
        eng.claim(sym.same(t1, t2), info=lambda m: {"failure": "trace", "after": out,
                                                      "before_trace": repr(sym.concretize(t1, m))[:200],
                                                      "after_trace": repr(sym.concretize(t2, m))[:200]})

    eng = sym.Engine(budget_s=120, max_paths=300, max_cex=2)
    eng.path_hooks.append(instrument.reset_caches)
    d = eng.explore(harness).as_dict()
    d["notes"] = dict(stats, branched_on=d["branches"])
    d["fired"] = stats["changed"]
    if stats["crash"] or (d["claims"] == 0 and stats["outside"]):
        d["allow_vacuous"] = True
        d["trivial"] = True
    return d


def _jobs(tier, seed):
    rnd = random.Random(seed)
    names = sorted(USES)
    combos = [(n,) for n in names] + list(itertools.combinations(names, 2))
    r2 = random.Random(99)
    triples = sorted({tuple(sorted(r2.sample(names, 3))) for _ in range(300)})
    jobs = []
    for chunks in combos + triples:
        for picks in itertools.product(*[range(len(USES[c])) for c in chunks]):
            for form in ("attr", "from") + (("from_as", "reexport") if len(chunks) == 1 else ()):
                jobs.append((list(chunks), list(picks), form))
    if tier == "quick":
        singles = [j for j in jobs if len(j[0]) == 1]
        rest = [j for j in jobs if len(j[0]) > 1]
        jobs = singles + rnd.sample(rest, 120)
    return jobs


def obligations(tier, seed):
    rnd = random.Random(seed + 1)
    obs = []
    for chunks, picks, form in _jobs(tier, seed):
        variants = [("api", 1), ("api", 2)]
        if tier != "quick" or len(chunks) == 1 or rnd.random() < 0.25:
            variants.append(("cli", 1))
        lays = {}
        for path, passes in variants:
            lays[(path, passes)] = "flat"
        if ("cli", 1) in lays:
            variants += [("cli:twotrees", 1), ("cli:twoclients", 1), ("cli:wholepkg", 1)]
        for path, passes in variants:
            layout = "flat"
            if ":" in path:
                path, layout = path.split(":")
            oid = "client/%s%d%s/%s/%s/%s" % (path, passes, "" if layout == "flat" else "-" + layout, form, "+".join(chunks), "".join(map(str, picks)))
            obs.append(Obligation(oid, ob_client, {"chunks": chunks, "picks": picks, "form": form, "path": path, "passes": passes, "layout": layout},
                                  hard_timeout=260, sample={"library_chunks": chunks, "client": make_client(chunks, picks, form)[-200:],
                                                            "path": path, "passes": passes}))
    return obs


def case_of(ob, r, cex):
    info = cex.get("info") or {}
    return {"kind": "client", "params": ob.params, "model": cex["model"], "key": "%s|%s" % (ob.oid, info.get("failure", "?"))}


def replay(case):
    import contextlib
    import io
    import os
    import subprocess
    import sys
    import tempfile

    from vk import symtv

    p = case["params"]
    lib_text = symtv.concrete_program("\n\n".join(CHUNKS[c] for c in p["chunks"]), case["model"])
    client = symtv.concrete_program(make_client(p["chunks"], p["picks"], p["form"]), case["model"])
    out = transform_lib(lib_text, client, p["path"], p["passes"], p.get("layout", "flat"))

    def run(lib):
        with tempfile.TemporaryDirectory() as d:
            with open(os.path.join(d, LIBNAME + ".py"), "w") as f:
                f.write(lib)
            with open(os.path.join(d, "client.py"), "w") as f:
                f.write(client)
            r = subprocess.run([sys.executable, "client.py"], cwd=d, capture_output=True, text=True, timeout=60,
                               env={k: v for k, v in os.environ.items() if k != "PYTHONPATH"})
            return r.returncode, r.stdout, r.stderr[-300:]

    r1, r2 = run(lib_text), run(out)
    bad = r1[0] == 0 and (r2[0] != 0 or r2[1] != r1[1])
    failure = "trace" if r2[0] == 0 else "raises:%s" % (re.findall(r"(\w+Error|\w+Exception)", r2[2]) or ["?"])[-1]
    return {"reproduced": bad, "key": "%s|%s" % (case["oid"], failure),
            "detail": "library:\n%s\n--- client:\n%s\n--- library after pyrefact (%s, %d pass(es), preserve from the client):\n%s\n"
                      "--- client before: rc=%s %r\n--- client after:  rc=%s %r %s" % (
                          lib_text, client[-300:], p["path"], p["passes"], out, r1[0], r1[1][-200:], r2[0], r2[1][-200:], r2[2])}


def evidence_extra(obligations, results):
    return {"programs": sum(1 for r in results if r.get("fired")),
            "library_changed": sum(1 for r in results if r.get("fired")),
            "trivial_not_counted": sum(1 for r in results if r.get("trivial"))}
