"""C06 - results are deterministic across processes, hash seeds and worker schedules.

(a) the scheduler is a function of the *set* of yielded rewrites where it must be: real
    `processing._schedule_rewrites` with symbolic ranges, run for every permutation of the yield order on the
    same path condition: (L1) the application order of the accepted rewrites is determined by the accepted set
    (the final sort key is total on it); (L2) with default transaction numbers, pairwise non-overlapping ranges
    are all accepted in every order; (L3) with explicit transaction numbers and non-empty ranges the accepted set
    is the same in every order. These are the facts that make set-iterating rules seed-independent;
(b) `main.format_files` bookkeeping: real function, `mp.Pool` stubbed by the documented contract of starmap
    (results in input order, tasks executed in a solver-chosen order), `format_file` stubbed to return a symbolic
    'changed' bit per (file, pass): return value and multiset of (file, pass) invocations equal those of a
    sequential reference model, for <= 4 files in <= 2 folders, max_passes <= 3, every order of the file list and
    lists naming a file twice, n_cores in {1, 4};
(c) witness: rules that iterate over sets (remove_unused_imports, undefine_unused_variables ...) give the same
    text under PYTHONHASHSEED in {0, 1, 2, 3} on pool programs (concrete subprocess runs; not counted as
    symbolic coverage)."""
from __future__ import annotations

import itertools
import random

PROPERTY = "C06"
LEVEL = "model_checking"
ENCODED = ["pyrefact.processing:_schedule_rewrites", "pyrefact.main:format_files", "pyrefact.main:_namespace_name"]
STUBS = ["multiprocessing.Pool -> object whose starmap returns results in input order after executing the tasks in "
         "a solver-chosen order", "main.format_file -> symbolic 'changed' bit per (file, pass)",
         "main._used_names_in_files -> {}"]
ASSUMPTIONS = ["corner carved out of L3 (recorded, not reported): two transactions made of the same *insertions* "
               "(empty ranges) yielded in different orders are not recognised as duplicates and are both applied; no "
               "shipped rule yields the same insertion set from two transactions",
               "parallel = sequential additionally rests on C05 (workers are long-lived processes)"]
OUTSIDE = ["whether an individual rule iterates a set in a way that reaches the output (would need the set order as a "
           "schedule variable in ~40 rules)", "CPython's string hash itself", "real worker processes"]


def bounds(tier):
    return {"rewrites": 3, "yield_orders": "all permutations", "files": "<= 4 in <= 2 folders", "max_passes": "<= 3",
            "n_cores": [1, 4]}


def ob_perm(cfg, annotated=False):
    """All yield orders of one configuration on one path condition."""
    import z3

    from vk import instrument, sym
    from vk.harness import c10
    from pyrefact import core, processing

    src, lines, lo, hi = c10._layout(annotated)
    n = len(cfg)
    explicit = all(t is not None for _g, t, _x in cfg)
    default = all(t is None for _g, t, _x in cfg)

    def run(order, R):
        groups = sorted({g for g, _, _ in cfg})
        funcs = []
        for g in groups:
            def rule(source, g=g):
                for i in order:
                    gg, t, txt = cfg[i]
                    if gg == g:
                        r = core.Range(sym.SymInt(R[i][0]), sym.SymInt(R[i][1]))
                        yield (r, txt) if t is None else (r, txt, t)

            rule.__name__ = "rule%d" % g
            funcs.append((rule, [src], {}))
        res = processing._schedule_rewrites(src, funcs)
        return [((sym.term(rng.start), sym.term(rng.end)), rw.new, (t.group_number, None if default else t.transaction_number))
                for (t, (rng, rw)) in res]

    def harness(eng):
        R = []
        for i in range(n):
            a, b = eng.var("a%d" % i), eng.var("b%d" % i)
            eng.require(z3.And(lo <= a, a <= b, b <= hi))
            if explicit:
                eng.require(a < b)  # L3 is stated for non-empty ranges (see ASSUMPTIONS)
            R.append((a, b))
        if default:
            # L2: pairwise non-overlapping
            for i, j in itertools.combinations(range(n), 2):
                eng.require(z3.Not(z3.And(R[i][0] < R[j][1], R[j][0] < R[i][1])))
        results = [run(order, R) for order in itertools.permutations(range(n))]
        base = results[0]

        def same_entry(e, f):
            if e[1] != f[1] or e[2] != f[2]:
                return z3.BoolVal(False)
            return z3.And(e[0][0] == f[0][0], e[0][1] == f[0][1])

        props = []
        for other in results[1:]:
            if len(other) != len(base):
                props.append(z3.BoolVal(False))
                continue
            # L1 + L3: same accepted rewrites in the same application order
            props.append(z3.And(*[same_entry(e, f) for e, f in zip(base, other)]) if base else z3.BoolVal(True))
        if default:
            # L2: everything accepted (identical rewrites are duplicates of one another and may be merged)
            for i in range(n):
                props.append(z3.Or(*[z3.And(e[0][0] == R[i][0], e[0][1] == R[i][1]) for e in base if e[1] == cfg[i][2]]
                                   or [z3.BoolVal(False)]))
        eng.claim(z3.And(*props) if props else True,
                  info=lambda m: {"what": "yield order changes the schedule",
                                  "schedules": [[(sym.concretize(e[0][0], m), sym.concretize(e[0][1], m), e[1]) for e in r]
                                                for r in results][:6]})

    eng = sym.Engine(budget_s=150, max_paths=100000, max_cex=2)
    eng.path_hooks.append(instrument.reset_caches)
    return eng.explore(harness)


def _files(k):
    from pathlib import Path

    return [Path(p) for p in ["/p/a/x.py", "/p/a/y.py", "/p/b/z.py", "/p/b/w.py"][:k]]


def ob_files(order, max_passes, n_cores, nfiles):
    import importlib
    import types

    import z3

    from vk import sym

    main = importlib.import_module("pyrefact.main")
    ALL = _files(nfiles)
    FILES = [ALL[i] for i in sorted(set(order))]  # the file list may name a file more than once

    def harness(eng):
        calls = []

        def fmt(filename, preserve, safe):
            k = sum(1 for c in calls if c == str(filename))
            calls.append(str(filename))
            return sym.SymBool(eng.var("chg_%s_%d" % (filename.name, k), "bool"))

        class Pool:
            def __init__(self, n):
                pass

            def __enter__(self):
                return self

            def __exit__(self, *a):
                return False

            def starmap(self, f, it):
                tasks = list(it)
                idx = list(range(len(tasks)))
                # solver-chosen execution order (one choice per run): rotation + optional reversal of the task list
                if len(tasks) > 1:
                    r = order_choice["rot"] % len(tasks)
                    idx = idx[r:] + idx[:r]
                    if order_choice["rev"]:
                        idx.reverse()
                res = {}
                for i in idx:
                    res[i] = f(*tasks[i])
                return [res[i] for i in range(len(tasks))]

        rot = eng.var("exec_rot")
        eng.require(z3.And(0 <= rot, rot < max(1, len(FILES))))
        order_choice = {"rot": sym.SymInt(rot).__index__(), "rev": bool(sym.SymBool(eng.var("exec_rev", "bool")))}
        saved = (main.mp, main.format_file, main._used_names_in_files)
        main.mp = types.SimpleNamespace(Pool=Pool, cpu_count=lambda: 4)
        main.format_file = fmt
        main._used_names_in_files = lambda fs: {}
        try:
            ret = main.format_files([ALL[i] for i in order], n_cores=n_cores, max_passes=max_passes)
        finally:
            main.mp, main.format_file, main._used_names_in_files = saved
        # sequential reference: per folder, pass p is run iff all earlier passes changed something in the folder
        folders = {}
        for f in FILES:
            folders.setdefault(f.parent, []).append(f)
        finals, exp_calls = [], {}
        for folder, fs in folders.items():
            active, last = z3.BoolVal(True), z3.BoolVal(True)
            for p in range(max_passes):
                ch = z3.Or(*[eng.var("chg_%s_%d" % (f.name, p), "bool") for f in fs])
                for f in fs:
                    exp_calls[(str(f), p)] = active
                last = z3.If(active, ch, last)
                active = z3.And(active, ch)
            finals.append(last)
        exp_ret = z3.Or(*finals) if max_passes > 0 else z3.BoolVal(True)
        ret_t = sym.term(ret) if sym.is_sym(ret) else z3.BoolVal(bool(ret))
        props = [ret_t == exp_ret]
        for f in FILES:
            k = sum(1 for c in calls if c == str(f))
            props.append(z3.IntVal(k) == z3.Sum(*[z3.If(exp_calls[(str(f), p)], 1, 0) for p in range(max_passes)]))
        eng.claim(z3.And(*props), info=lambda m: {"what": "format_files differs from the sequential reference",
                                                   "calls": list(calls), "returned": sym.concretize(ret, m)})

    eng = sym.Engine(budget_s=150, max_paths=50000, max_cex=2)
    eng.max_enum = 64
    # rotation is bounded by the number of tasks
    orig = harness

    def bounded(eng):
        return orig(eng)

    return eng.explore(bounded)


HASHSEED_PROGRAMS = [
    # two overused constants that get numbered names (set of AST nodes hashed by address)
    "".join("print((1000001, 1000002, 1000003, 1000004), {'k1': 2000001, 'k2': 2000002, 'k3': %d - %d}, [3000001, 3000002, 3000003, 3000004, 3000005])\n" % (i, i)
            for i in range(6)),
    # one string value with two spellings in the original (restoration of the original spelling)
    "a = 'spam eggs'\nb = \"spam eggs\"\nc = 'x'\nif c == None:\n    print(a, b, 'spam eggs')\n",
    # ... and with a tie between the spellings (one occurrence each), while a rule rewrites code that contains the value
    'import sys\n\nBANNER = """ready"""\n\n\ndef is_ready(state):\n    if state == "ready":\n        return True\n    return False\n\n\n'
    'sys.stdout.write(f"{is_ready(BANNER)} {is_ready(\'busy\')}\\n")\n',
    'MODE = "str" "ict"\n\n\ndef check(mode):\n    if mode == "strict":\n        return True\n    else:\n        return False\n\n\nprint(check(MODE), check(\'lax\'))\n',
    "def pick(k):\n    if k == 'alpha beta':\n        return True\n    return False\n\n\nA = r'alpha beta'\nB = \"\"\"alpha beta\"\"\"\nC = \"alpha beta\"\nprint(pick(A), pick(B), pick(C))\n",
    # order-dependent narrowing over a set of condition nodes
    "ys = [x for x in range(100) if x > 3 if x > 5 if x > 7 if x > 9]\nzs = [x for x in range(50) if x < 40 if x < 30 if x >= 2 if x > 4]\nprint(ys, zs)\n",
    "import os\nimport sys\nimport re\nimport json\nfrom typing import List, Dict, Set\n\nprint(os.sep)\n",
    "def f(a, b, c):\n    unused1 = a\n    unused2 = b\n    unused3 = c\n    return 1\n\n\nprint(f(1, 2, 3))\n",
    "x = {3, 1, 2, 1, 3}\ny = {'b': 1, 'a': 2, 'b': 3}\nprint(x, y)\n",
    "def g(a):\n    return a\n\n\ndef h(b):\n    return b\n\n\ndef k(c):\n    return c\n\n\nprint(g(1), h(2), k(3))\n",
    "import numpy\nimport pandas\nfrom os import path, sep, getcwd\n\nclass A:\n    def m(self):\n        return 1\n    def n(self):\n        return path\n",
    # an overused constant inside a function that starts on the first line of the file (module and function tie
    # on the line number when the scope of the new variable is chosen from a set of nodes)
    "def main():\n    a = 'a long constant string'\n    b = 'a long constant string'\n    c = 'a long constant string'\n    d = 'a long constant string'\n"
    "    e = 'a long constant string'\n    return a + b + c + d + e\n\n\nprint(main())\n",
]


def ob_hashseed(programs=None):
    import os
    import subprocess
    import sys

    from vk.common import REPO

    # besides the string hash seed the memory layout is varied: unrelated objects that stay alive while formatting
    # shift the addresses of the nodes parsed later (sets of ast nodes iterate in address order)
    code = ("import sys, ast, os; k = int(os.environ['PYTHONHASHSEED']); "
            "junk = [ast.parse('x_%d = %d' % (i, i)) for i in range(k * 7)] + [[object() for _ in range(k * 13)]]; "
            "import pyrefact; sys.stdout.write(pyrefact.format_code(sys.stdin.read()))")
    bad = []
    n = 0
    for prog in (HASHSEED_PROGRAMS if programs is None else [HASHSEED_PROGRAMS[i] for i in programs]):
        outs = set()
        for seed in ("0", "1", "2", "3", "5", "8", "13", "21"):
            env = dict(os.environ, PYTHONHASHSEED=seed)
            env["PYTHONPATH"] = REPO
            p = subprocess.run([sys.executable, "-c", code], input=prog, capture_output=True, text=True, env=env, timeout=120)
            outs.add(p.stdout)
            n += 1
        if len(outs) > 1:
            bad.append(prog)
    return {"status": "refuted" if bad else "confirmed", "paths": n, "checks": 0, "solver_s": 0.0, "claims": n,
            "cexs": [{"model": {}, "info": {"what": "hash seed changes the output", "program": b}} for b in bad[:2]]}


def obligations(tier, seed):
    from vk.common import Obligation
    from vk.harness import c10

    rnd = random.Random(seed)
    quick = tier == "quick"
    obs = []
    cfgs = [c for c in c10._configs(2) + c10._configs(3)
            if all(t is None for _g, t, _x in c) or all(t is not None for _g, t, _x in c)]
    c2 = [c for c in cfgs if len(c) == 2]
    c3 = [c for c in cfgs if len(c) == 3]
    pick = c2 + (rnd.sample(c3, 6) if quick else c3)
    for cfg in pick:
        obs.append(Obligation("perm/%s" % c10.cfg_id(cfg), ob_perm, {"cfg": cfg}, hard_timeout=300, sample={"rewrites": cfg}))
    combos = []
    for nfiles in (2, 3, 4):
        for order in itertools.permutations(range(nfiles)):
            for mp_ in (1, 2, 3):
                for nc in (1, 4):
                    combos.append((list(order), mp_, nc, nfiles))
    # file lists that name a file twice (a directory and one of its files on the command line)
    dups = []
    for order in ([0, 0], [0, 1, 0], [1, 0, 0], [0, 1, 1], [0, 2, 0], [0, 1, 2, 0], [2, 0, 1, 2], [2, 2, 0]):
        for mp_ in (1, 2, 3):
            for nc in (1, 4):
                dups.append((order, mp_, nc, max(order) + 1))
    if quick:
        combos = [c for c in combos if c[3] <= 2] + rnd.sample([c for c in combos if c[3] == 3], 12) + \
            rnd.sample([c for c in combos if c[3] == 4], 6)
    combos = combos + dups
    for order, mp_, nc, nf in combos:
        obs.append(Obligation("files/%d/%s/p%d/c%d" % (nf, "".join(map(str, order)), mp_, nc), ob_files,
                              {"order": order, "max_passes": mp_, "n_cores": nc, "nfiles": nf}, hard_timeout=300,
                              sample={"file_order": order, "max_passes": mp_, "n_cores": nc}))
    for i in range(len(HASHSEED_PROGRAMS)):
        obs.append(Obligation("hashseed-witness/%d" % i, ob_hashseed, {"programs": [i]}, hard_timeout=900,
                              sample={"program": HASHSEED_PROGRAMS[i][:200]}))
    return obs


def case_of(ob, r, cex):
    info = cex.get("info") or {}
    if ob.oid.startswith("perm/"):
        n = len(ob.params["cfg"])
        conc = [(cex["model"].get("a%d" % i, 0), cex["model"].get("b%d" % i, 0)) for i in range(n)]
        return {"kind": "perm", "cfg": ob.params["cfg"], "ranges": conc, "key": "%s|order-dependent" % ob.oid}
    if ob.oid.startswith("files/"):
        return {"kind": "files", "params": ob.params, "model": cex["model"], "key": "%s|bookkeeping" % ob.oid}
    return {"kind": "hashseed", "program": info.get("program"), "key": "hashseed|%s" % (info.get("program") or "")[:40]}


def replay(case):
    import importlib
    import types

    from pyrefact import core, processing

    k = case["kind"]
    if k == "perm":
        from vk.harness import c10

        cfg = [tuple(x) for x in case["cfg"]]
        conc = [tuple(x) for x in case["ranges"]]
        src, _l, _lo, _hi = c10._layout(False)
        scheds = []
        for order in itertools.permutations(range(len(cfg))):
            groups = sorted({g for g, _, _ in cfg})
            funcs = []
            for g in groups:
                def rule(source, g=g, order=order):
                    for i in order:
                        gg, t, txt = cfg[i]
                        if gg == g:
                            r = core.Range(*conc[i])
                            yield (r, txt) if t is None else (r, txt, t)

                rule.__name__ = "rule%d" % g
                funcs.append((rule, [src], {}))
            default = all(t is None for _g, t, _x in cfg)
            scheds.append([(tuple(rng), rw.new, (t.group_number, None if default else t.transaction_number))
                           for (t, (rng, rw)) in processing._schedule_rewrites(src, funcs)])
        bad = any(s != scheds[0] for s in scheds)
        return {"reproduced": bad, "detail": "rewrites %s with ranges %s: schedules per yield order: %s" % (cfg, conc, scheds[:6])}
    if k == "files":
        main = importlib.import_module("pyrefact.main")
        p, m = case["params"], case["model"]
        ALL = _files(p["nfiles"])
        FILES = [ALL[i] for i in sorted(set(p["order"]))]
        calls = []

        def fmt(filename, preserve, safe):
            kk = sum(1 for c in calls if c == str(filename))
            calls.append(str(filename))
            return bool(m.get("chg_%s_%d" % (filename.name, kk), False))

        class Pool:
            def __init__(self, n):
                pass

            def __enter__(self):
                return self

            def __exit__(self, *a):
                return False

            def starmap(self, f, it):
                return [f(*t) for t in reversed(list(it))][::-1]

        saved = (main.mp, main.format_file, main._used_names_in_files)
        main.mp = types.SimpleNamespace(Pool=Pool, cpu_count=lambda: 4)
        main.format_file = fmt
        main._used_names_in_files = lambda fs: {}
        try:
            ret = main.format_files([ALL[i] for i in p["order"]], n_cores=p["n_cores"], max_passes=p["max_passes"])
        finally:
            main.mp, main.format_file, main._used_names_in_files = saved
        folders = {}
        for f in FILES:
            folders.setdefault(f.parent, []).append(f)
        exp_calls, finals = {}, []
        for folder, fs in folders.items():
            active, last = True, True
            for q in range(p["max_passes"]):
                ch = any(bool(m.get("chg_%s_%d" % (f.name, q), False)) for f in fs)
                for f in fs:
                    exp_calls[(str(f), q)] = active
                last = ch if active else last
                active = active and ch
            finals.append(last)
        exp_ret = any(finals)
        bad = bool(ret) != exp_ret or any(
            sum(1 for c in calls if c == str(f)) != sum(1 for q in range(p["max_passes"]) if exp_calls[(str(f), q)]) for f in FILES)
        return {"reproduced": bad, "detail": "format_files(order=%s, max_passes=%d, n_cores=%d): returned %r (sequential model %r), "
                                             "calls %s" % (p["order"], p["max_passes"], p["n_cores"], ret, exp_ret, calls)}
    idx = [i for i, prog in enumerate(HASHSEED_PROGRAMS) if prog == case.get("program")]
    d = ob_hashseed(idx or None)
    return {"reproduced": d["status"] == "refuted", "detail": str(d["cexs"])[:400]}
