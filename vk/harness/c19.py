"""C19 - renaming is consistent and capture-free.

(a) symbolic translation validation with T = format_code (unsafe mode) and each renaming rule
    (align_variable_names_with_convention, undefine_unused_variables, remove_duplicate_functions,
    move_staticmethod_static_scope, remove_unused_self_cls, overused_constant,
    replace_nested_loops_with_set_list_comp) on skeletons whose identifiers are drawn adversarially - camelCase /
    snake_case / UPPER variants of one another, a name equal to the would-be new name, builtins,
    keyword-with-underscore, generated-name prefixes - and bound in every way Python allows (assignment,
    augmented, for, with, def, class, global / nonlocal, comprehension, attribute, keyword argument). An
    inconsistent or capturing rename is a NameError / UnboundLocalError, a changed trace for some input, or
    unparsable output;
(b) duplicate detection: real `abstractions.hash_node` / `remove_duplicate_functions` on two functions whose
    bodies differ in a *symbolic* constant (merged only when the constants are equal: the solver decides for all
    pairs), plus concrete collision witnesses (1 / True / 1.0, 1 / 1 + 2**61 - 1, 0.5 / 2.0, None / ...)."""
from __future__ import annotations

import itertools
import random

from vk import pool
from vk.common import Obligation
from vk.symtv import prelude

PROPERTY = "C19"
LEVEL = "translation_validation"
ENCODED = ["pyrefact.fixes:align_variable_names_with_convention", "pyrefact.fixes:_get_uses_of", "pyrefact.style:rename_variable",
           "pyrefact.style:rename_class", "pyrefact.fixes:undefine_unused_variables", "pyrefact.fixes:remove_duplicate_functions",
           "pyrefact.abstractions:hash_node", "pyrefact.object_oriented:move_staticmethod_static_scope",
           "pyrefact.object_oriented:remove_unused_self_cls", "pyrefact.abstractions:overused_constant",
           "pyrefact.fixes:_fix_variable_names", "pyrefact.main:format_code"]
STUBS = []
ASSUMPTIONS = ["identifiers are concrete strings drawn from an adversarial pool (style.rename_* works by regex on str: no "
               "symbolic strings); the symbolic dimension is run-time inputs, tape values and constants",
               "(b) relies on hash_node hashing constants through repr(): a proxy's repr is its canonical marker, so two "
               "symbolic constants hash alike exactly when their values are equal on the path"]
OUTSIDE = ["style.rename_* over all identifier strings", "CPython's str hash collisions"]

PAIRS = [("myVar", "my_var"), ("MY_VAR", "my_var"), ("MyVar", "my_var"), ("camelCaseName", "camel_case_name"),
         ("x1", "X1"), ("list_", "list"), ("_my_var", "my_var"), ("myVar", "myvar"), ("id_", "id"), ("class_", "klass"),
         ("someURLValue", "some_url_value"), ("l", "I"), ("value", "_value"), ("dataItem", "data_item_"),
         ("HTTPResponse", "http_response"), ("a2b", "a_2_b"), ("pyrefact_overused_constant_0", "PYREFACT_OVERUSED_CONSTANT_0"),
         ("__x", "x"), ("maxSize", "MAX_SIZE"), ("type_", "type")]

TEMPLATES = {
    "locals": "def main(a):\n    {A} = a + 1\n    {B} = a + 2\n    print({A}, {B})\n    return {A}\n\n\nprint(main(inp()))\n",
    "module": "{A} = inp()\n{B} = {A} + 1\nprint({A}, {B})\n",
    "global": "{A} = 0\n{B} = 10\n\n\ndef bump():\n    global {A}\n    {A} += 1\n    return {B}\n\n\nprint(bump(), {A}, {B})\n",
    "nonlocal": "def main():\n    {A} = 1\n    {B} = 5\n\n    def inner():\n        nonlocal {A}\n        {A} += {B}\n\n    inner()\n    return {A}, {B}\n\n\nprint(main())\n",
    "loop": "def main(n):\n    {B} = 100\n    for {A} in range(n):\n        {B} = {B} * 2 + {A}\n        print({A}, {B})\n    return {B}\n\n\nprint(main(inp() + 3))\n",
    "comprehension": "def main(n):\n    {B} = 3\n    out = [{A} * {B} for {A} in range(n)]\n    return out, {B}\n\n\nprint(main(inp() + 3))\n",
    "funcs": "def {A}(x):\n    return x + 1\n\n\ndef {B}(x):\n    return x + 2\n\n\nprint({A}(inp()), {B}(inp()))\n",
    "func_vs_var": "def {A}(x):\n    return x + 1\n\n\n{B} = 5\nprint({A}({B}))\n",
    "params": "def f({A}, {B}=2):\n    return {A} * 10 + {B}\n\n\nprint(f(inp(), {B}=inp()), f({A}=1))\n",
    "attrs": "class Thing:\n    def __init__(self, v):\n        self.{A} = v\n        self.{B} = v + 1\n\n    def total(self):\n        return self.{A} * 10 + self.{B}\n\n\nt = Thing(inp())\nprint(t.total(), t.{A}, t.{B})\n",
    "methods": "class Thing:\n    def {A}(self):\n        return 1\n\n    def {B}(self):\n        return self.{A}() + 1\n\n\nt = Thing()\nprint(t.{A}(), t.{B}())\n",
    "classattrs": "class Cfg:\n    {A} = 1\n    {B} = 2\n\n    def get(self):\n        return self.{A} * 10 + Cfg.{B}\n\n\nprint(Cfg().get(), Cfg.{A}, Cfg.{B})\n",
    "classes": "class {A}:\n    v = 1\n\n\nclass {B}:\n    v = 2\n\n\nprint({A}.v, {B}.v, {A}().v)\n",
    "with": "class cm:\n    def __enter__(self):\n        return 7\n\n    def __exit__(self, *a):\n        return False\n\n\ndef main():\n    {B} = 1\n    with cm() as {A}:\n        {B} += {A}\n    return {A}, {B}\n\n\nprint(main())\n",
    "unused": "def main(a):\n    {A} = effect(a)\n    {B} = a + 1\n    return {B}\n\n\nprint(main(inp()))\n",
    "unused_tuple": "def main(a):\n    {A}, {B} = effect(a), a + 1\n    return {B}\n\n\nprint(main(inp()))\n",
    "shadow_builtin": "def main(a):\n    {A} = [a, a + 1]\n    {B} = len({A})\n    return {B}, sum({A})\n\n\nprint(main(inp()))\n",
    "closure": "def make({A}):\n    def inner({B}):\n        return {A} * 10 + {B}\n\n    return inner\n\n\nprint(make(inp())(inp()))\n",
    "aug_walrus": "def main(a):\n    {A} = a\n    {A} += 1\n    if ({B} := {A} * 2) > 0:\n        {A} = {B}\n    return {A}, {B}\n\n\nprint(main(inp()))\n",
    "del_": "def main(a):\n    {A} = a\n    {B} = {A} + 1\n    del {A}\n    return {B}\n\n\nprint(main(inp()))\n",
    "lambda_default": "{A} = 3\n{B} = lambda q, {A}={A}: q + {A}\nprint({B}(inp()), {A})\n",
    "exc_as": "def main(a):\n    {B} = 0\n    try:\n        raise ValueError(a)\n    except ValueError as {A}:\n        {B} = {A}.args[0]\n    return {B}\n\n\nprint(main(inp()))\n",
    "import_as": "import math as {A}\n\n{B} = {A}.floor(2.5)\nprint({B})\n",
    "static_extract": "def _{A}(x):\n    return x - 1\n\n\nclass Box:\n    @staticmethod\n    def {A}(x):\n        return x + 1\n\n    def go(self, x):\n        return self.{A}(x) + Box.{A}(x)\n\n\nprint(Box().go(inp()), _{A}(1))\n",
    "dup_funcs": "def {A}(x):\n    y = x + 1\n    return y\n\n\ndef {B}(z):\n    w = z + 1\n    return w\n\n\nprint({A}(inp()), {B}(inp()), {B})\n".replace(", {B})\n", ")\n"),
    "shadow_local": "{A} = 3\n\n\ndef get_count():\n    {A} = 5\n    return {A}\n\n\nprint(get_count(), {A})\n",
    "shadow_local2": "{A} = 3\n{B} = 4\n\n\ndef get_count(n):\n    {A} = n + {B}\n    return {A} * 2\n\n\nprint(get_count(inp()), {A}, {B})\n",
    "shadow_func": "def {A}():\n    return 1\n\n\ndef other(n):\n    {A} = n + 1\n    return {A}\n\n\nprint({A}(), other(inp()))\n",
    "shadow_param": "{A} = 3\n\n\ndef scale({A}, {B}=2):\n    return {A} * {B}\n\n\nprint(scale(inp()), {A})\n",
    "shadow_comp": "{A} = 3\n\n\ndef build(n):\n    return [{A} for {A} in range(n)]\n\n\nprint(build(inp() + 3), {A})\n",
    "shadow_class": "{A} = 3\n\n\nclass Holder:\n    {A} = 7\n\n    def get(self):\n        {B} = self.{A}\n        return {B}\n\n\nprint(Holder().get(), {A})\n",
    "vararg": "def main(n):\n    {A} = [n, n + 1]\n\n    def inner(*{A}):\n        return sum({A})\n\n    return inner(1, 2), {A}\n\n\nprint(main(inp()))\n",
    "kwarg": "def main(n):\n    {A} = {'scale': n}\n\n    def inner(**{A}):\n        return sorted({A})\n\n    return inner(alpha=1, beta=2), {A}\n\n\nprint(main(inp()))\n",
    "kwonly": "def main(n):\n    {A} = n + 1\n\n    def inner(*, {A}=5, {B}=6):\n        return {A} * 10 + {B}\n\n    return inner({B}=1), {A}\n\n\nprint(main(inp()))\n",
    "posonly": "def main(n):\n    {A} = n + 1\n\n    def inner({A}, /, {B}=2):\n        return {A} * 10 + {B}\n\n    return inner(3), {A}\n\n\nprint(main(inp()))\n",
    "class_scope": "def main(n):\n    {A} = n + 1\n\n    class Inner:\n        {A} = 7\n        {B} = {A} + 1\n\n    return Inner.{A}, Inner.{B}, {A}\n\n\nprint(main(inp()))\n",
    "lambda_param": "def main(n):\n    {A} = n + 1\n    {B} = lambda {A}: {A} * 2\n    return {B}(5), {A}\n\n\nprint(main(inp()))\n",
    # a local whose conventional name is the name of a (coroutine) function that the same scope calls and whose own
    # rename is discarded in the pass (recursive / used by an earlier function)
    "async_recursive": "import asyncio\n\n\nasync def {B}(n):\n    if n <= 0:\n        return 0\n    return 1 + await {B}(n - 1)\n\n\ndef main(v):\n    {A} = v + 3\n    return asyncio.run({B}({A}))\n\n\nprint(main(inp()))\n",
    "async_used_earlier": "import asyncio\n\n\ndef do_stuff():\n    return asyncio.run({B}())\n\n\nasync def {B}():\n    return 41\n\n\ndef main(v):\n    {A} = v\n    return {A} + asyncio.run({B}()) + do_stuff()\n\n\nprint(main(inp()))\n",
    "func_recursive": "def {B}(n):\n    if n <= 0:\n        return 0\n    return 1 + {B}(n - 1)\n\n\ndef main(v):\n    {A} = v + 3\n    return {B}({A})\n\n\nprint(main(inp()))\n",
    "func_used_earlier": "def do_stuff():\n    return {B}()\n\n\ndef {B}():\n    return 41\n\n\ndef main(v):\n    {A} = v\n    return {A} + {B}() + do_stuff()\n\n\nprint(main(inp()))\n",
    "class_used_earlier": "def do_stuff():\n    return {B}().v\n\n\nclass {B}:\n    v = 41\n\n\ndef main(v):\n    {A} = v\n    return {A} + {B}().v + do_stuff()\n\n\nprint(main(inp()))\n",
    "nested_loops": "def main(n):\n    {B} = []\n    for {A} in range(n):\n        inner = [1, 2]\n        {B}.extend(inner)\n    return {B}\n\n\nprint(main(inp() + 3))\n",
}

# generated names (overused_constant): the would-be generated name is already taken, in either case, at module level,
# in a function, as a parameter; a second literal / string then needs a fresh name
_T1 = "(0, 1, 'north-facing wall')"
_S1 = "'a fairly long constant text'"
GENERATED = {
    "const-upper-taken-at-module": "PYREFACT_OVERUSED_CONSTANT_0 = ('colour', 'palette', 'default')\n\n\ndef main(v):\n    return [%s, %s, %s, v]\n\n\nprint(main(inp()), %s, %s, PYREFACT_OVERUSED_CONSTANT_0)\n" % ((_T1,) * 5),
    "const-lower-taken-at-module": "pyrefact_overused_constant_0 = ('colour', 'palette', 'default')\n\n\ndef main(v):\n    return [%s, %s, %s, v]\n\n\nprint(main(inp()), %s, %s, pyrefact_overused_constant_0)\n" % ((_T1,) * 5),
    "const-taken-in-function": "def main(v):\n    pyrefact_overused_constant_0 = v + 1\n    return [%s, %s, %s, %s, %s, pyrefact_overused_constant_0]\n\n\nprint(main(inp()))\n" % ((_T1,) * 5),
    "const-upper-taken-in-function": "def main(v):\n    PYREFACT_OVERUSED_CONSTANT_0 = v + 1\n    return [%s, %s, %s, %s, %s, PYREFACT_OVERUSED_CONSTANT_0]\n\n\nprint(main(inp()))\n" % ((_T1,) * 5),
    "const-taken-as-parameter": "def main(pyrefact_overused_constant_0, PYREFACT_OVERUSED_CONSTANT_1=2):\n    return [%s, %s, %s, %s, %s, pyrefact_overused_constant_0, PYREFACT_OVERUSED_CONSTANT_1]\n\n\nprint(main(inp()))\n" % ((_T1,) * 5),
    "two-constants-two-names": "def main(v):\n    a = [%s, %s, %s, %s, %s]\n    b = [{1: 'one', 2: 'two', 3: 'three'}, {1: 'one', 2: 'two', 3: 'three'}, {1: 'one', 2: 'two', 3: 'three'}, {1: 'one', 2: 'two', 3: 'three'}, {1: 'one', 2: 'two', 3: 'three'}]\n    return a, b, v\n\n\nprint(main(inp()))\n" % ((_T1,) * 5),
    "string-name-taken-upper": "A_FAIRLY_LONG_CONSTANT_TEXT = 1\n\n\ndef main(v):\n    return [%s, %s, %s, v]\n\n\nprint(main(inp()), %s, %s, A_FAIRLY_LONG_CONSTANT_TEXT)\n" % ((_S1,) * 5),
    "string-name-taken-lower-local": "def main(v):\n    a_fairly_long_constant_text = v\n    return [%s, %s, %s, %s, %s, a_fairly_long_constant_text]\n\n\nprint(main(inp()))\n" % ((_S1,) * 5),
    "string-name-is-a-function": "def a_fairly_long_constant_text():\n    return 5\n\n\ndef main(v):\n    return [%s, %s, %s, %s, %s, a_fairly_long_constant_text(), v]\n\n\nprint(main(inp()))\n" % ((_S1,) * 5),
    "second-run-after-first": "PYREFACT_OVERUSED_CONSTANT_0 = (0, 1, 'north-facing wall')\nPYREFACT_OVERUSED_CONSTANT_1 = 5\n\n\ndef main(v):\n    return [PYREFACT_OVERUSED_CONSTANT_0, PYREFACT_OVERUSED_CONSTANT_1, v]\n\n\nprint(main(inp()), %s, %s, %s, %s, %s)\n" % (("('colour', 'palette', 'default')",) * 5),
}

DUP_SYM = [
    "def f(x):\n    return x + 7000\n\n\ndef g(x):\n    return x + 7001\n\n\nprint(f(inp()), g(inp()))\n",
    "def f(x):\n    return [x, 7000]\n\n\ndef g(y):\n    return [y, 7001]\n\n\nprint(f(inp()), g(inp()))\n",
    "def f(x):\n    if x > 7000:\n        return 1\n    return 2\n\n\ndef g(x):\n    if x > 7001:\n        return 1\n    return 2\n\n\nprint(f(7150 - 7151), g(7150 - 7151))\n",
    "def f(x):\n    return x + 7000\n\n\ndef g(x):\n    return x + 7000\n\n\ndef h(x):\n    return x + 7001\n\n\nprint(f(inp()), g(inp()), h(inp()))\n",
]
DUP_WITNESS = [("1", "True"), ("1", "1.0"), ("1", "2305843009213693952"), ("0.5", "2.0"), ("None", "..."), ("'a'", "b'a'"),
               ("0", "False"), ("-1", "-2"), ("(1, 2)", "(1, 3)"), ("1", "1"), ("'a'", "'b'"), ("0.1", "0.1")]


def bounds(tier):
    return {"identifier_pairs": len(PAIRS), "binding_templates": len(TEMPLATES),
            "transforms": "format_code unsafe + 7 renaming rules", "inputs": "-3..3"}


RULES = ["rule:fixes.align_variable_names_with_convention", "rule:fixes.undefine_unused_variables",
         "rule:fixes.remove_duplicate_functions", "rule:object_oriented.move_staticmethod_static_scope",
         "rule:object_oriented.remove_unused_self_cls", "rule:abstractions.overused_constant",
         "rule:fixes.replace_nested_loops_with_set_list_comp"]


def skeletons():
    for (a, b), (tname, t) in itertools.product(PAIRS, sorted(TEMPLATES.items())):
        for x, y in ((a, b), (b, a)):
            text = prelude(6) + t.replace("{A}", x).replace("{B}", y)
            try:
                compile(text, "<c19>", "exec")
            except SyntaxError:
                continue
            yield pool.Skeleton("ident/%s/%s-%s" % (tname, x, y), text, tape=6, fuel=400)


def obligations(tier, seed):
    rnd = random.Random(seed)
    sks = list(skeletons())
    # quick: every (template, identifier pair) through the pipeline and the renaming rule; the other renaming
    # rules on a seed-chosen sample (a first version sampled 220 skeletons and lost a seeded change that needs
    # one particular template with one particular kind of pair)
    extra = set(rnd.sample(range(len(sks)), 220)) if tier == "quick" else set()
    obs = []
    for i, sk in enumerate(sks):
        trs = ["format_code:safe=0", "rule+imports:fixes.align_variable_names_with_convention"]
        if tier != "quick":
            trs += ["rule+imports:" + r[5:] for r in RULES[1:]] + ["twice:format_code:safe=0"]
        elif i in extra:
            trs.append("rule+imports:" + rnd.choice(RULES[1:])[5:])
        for tr in trs:
            obs.append(Obligation("%s/%s" % (tr.split(":")[-1][:45], sk.sid), pool.ob_tv,
                                  dict(skeleton=sk.to_json(), transform=tr, budget_s=60.0, max_cex=2, max_paths=300),
                                  hard_timeout=120, sample={"program": sk.text[-300:], "transform": tr}))
    for name, t in sorted(GENERATED.items()):
        sk = pool.Skeleton("generated/%s" % name, prelude(6) + t, tape=6, fuel=400)
        for tr in ("rule:abstractions.overused_constant", "format_code:safe=0", "format_code:safe=1", "twice:format_code:safe=1"):
            obs.append(Obligation("%s/%s" % (tr.split(":", 1)[-1][:45].replace(":", "-"), sk.sid), pool.ob_tv,
                                  dict(skeleton=sk.to_json(), transform=tr, budget_s=60.0, max_cex=2), hard_timeout=120,
                                  sample={"program": t[-300:], "transform": tr}))
    for i, t in enumerate(DUP_SYM):
        sk = pool.Skeleton("dupsym/%d" % i, prelude(6) + t, tape=6)
        for tr in ("rule:fixes.remove_duplicate_functions", "format_code:safe=0"):
            obs.append(Obligation("%s/%s" % (tr.split(":")[-1][:45], sk.sid), pool.ob_tv,
                                  dict(skeleton=sk.to_json(), transform=tr, budget_s=60.0, max_cex=2), hard_timeout=120,
                                  sample={"program": t, "transform": tr}))
    for i, (c1, c2) in enumerate(DUP_WITNESS):
        t = "def f(x):\n    return [x, %s]\n\n\ndef g(x):\n    return [x, %s]\n\n\nprint(f(inp()), g(inp()))\n" % (c1, c2)
        sk = pool.Skeleton("dupwit/%d:%s~%s" % (i, c1, c2), prelude(6) + t, tape=6)
        for tr in ("rule:fixes.remove_duplicate_functions", "format_code:safe=0"):
            obs.append(Obligation("%s/%s" % (tr.split(":")[-1][:45], sk.sid), pool.ob_tv,
                                  dict(skeleton=sk.to_json(), transform=tr, budget_s=60.0, max_cex=2), hard_timeout=120,
                                  sample={"program": t, "transform": tr}))
    return obs


def case_of(ob, r, cex):
    return pool.tv_case(ob, r, cex)


def replay(case):
    return pool.tv_replay(case)


def evidence_extra(obligations, results):
    return {"programs": sum(1 for r in results if r.get("fired")),
            "trivial_not_counted": sum(1 for r in results if r.get("trivial"))}
