"""C04 - the formatter is total: it never raises and always terminates.

(a) `core.literal_value` raises nothing but ValueError for every expression shape with symbolic int/bool leaves
    (shares the C15 harness);
(b)/(f) pool: on every path of the symbolic-literal run of every rule and of format_code (option combinations)
    over the shared skeleton pool - each rule's pattern as first / last / only / nested statement and as an
    indented fragment, statements at end of file - no exception escapes and a string is returned;
(c) offset arithmetic: the scheduler's position lookup (`core.get_charnos` via `fill_transaction`) with symbolic
    (lineno, col) ranging over every position its call sites can produce - inside the text and the insertion
    line one past the last line - never indexes out of range;
(d) `processing._do_rewrite` candidate selection with `is_valid_python` a solver Boolean per candidate text and
    replacement texts from {empty, token, two lines}: no exception;
(e) budgets: `fix(max_iter)`, `chain(max_iter)` and the two MAX_FILE_PASSES loops of format_code terminate within
    their budgets for an arbitrary (stubbed) rule whose 'changed' outcome per call is solver-chosen;
(g) invalid / empty / indented-fragment inputs are handed back (concrete witnesses)."""
from __future__ import annotations

import ast
import random

from vk import pool, poolfam
from vk.common import Obligation

PROPERTY = "C04"
LEVEL = "model_checking"
ENCODED = ["pyrefact.core:literal_value", "pyrefact.main:format_code", "pyrefact.processing:_schedule_rewrites",
           "pyrefact.core:get_charnos", "pyrefact.processing:_do_rewrite", "pyrefact.processing:fix",
           "pyrefact.processing:chain", "pyrefact.main:_multi_run_fixes"]
STUBS = ["(d): core.is_valid_python is a solver Boolean per candidate text", "(e): the rule / _multi_run_fixes is a stub that "
         "returns a never-seen text while a solver-chosen counter has not run out"]
ASSUMPTIONS = ["exponent/shift operands are bounded (-3..6), so 9**9**9-style divergence is outside the bound",
               "wall clock per obligation is bounded by the engine budget; a hard timeout is reported as inconclusive"]
OUTSIDE = ["whole-input totality over all strings", "termination of the self-recursive text rules (their progress "
           "measure is a property of re-parsed text)"]

FRAGMENTS = [
    "    if x:\n        a = 1\n        c()\n    else:\n        a = 2\n        c()\n",
    "        for i in range(7000):\n            out.append(i)\n",
    "    x = 7000 > 7001\n    if x == None:\n        pass\n",
]
# constants at the edges of what the evaluator's host types can hold (C-level sizes, float range, digit limits): the
# evaluator and its consumers may decline (ValueError inside, text unchanged) but must not let anything escape
EXTREME = [
    "for i in range(2**63):\n    print(i)\n    break\nprint(1)\n",
    "for i in range(10**20):\n    print(i)\n    break\n",
    "for i in range(0, 1 << 64, 1):\n    print(i)\n    break\nelse:\n    print(2)\n",
    "for i in range(2**63 - 1):\n    print(i)\n    break\n",
    "def main(v):\n    for i in range(-(2**64), 2**64):\n        return i\n    return v\n\n\nprint(main(1))\n",
    "x = 10**400 / 3\nprint(x)\n",
    "if 10**400 / 3 > 1:\n    print(1)\nprint(2)\n",
    "if 2.0 ** 10000:\n    print(1)\n",
    "if len(range(2**63)):\n    print(1)\nprint(2)\n",
    "if 2**63 in range(2**64):\n    print(1)\n",
    "if int('9' * 5000):\n    print(1)\n",
    "if float('1e999') > 1 or float('nan') > 1:\n    print(1)\n",
    "if 1e308 * 10 > 1 or 5 % 0.0:\n    print(1)\n",
    "if 10 ** -400:\n    print(1)\nelse:\n    print(2)\n",
    "if round(2.5, 10**10):\n    print(1)\n",
    "if chr(10**7) or chr(-1):\n    print(1)\n",
    "x = [i for i in range(0, 10**30, 10**29) if i > 5]\nprint(x)\n",
    "y = [i for i in range(2**70) if i < 5 if i >= 2**65]\nprint(len(y))\n",
    "if divmod(5, 0) or max(range(0)) or min(()):\n    print(1)\n",
    "while 2**63 in range(2**64):\n    break\n",
    "if 1 << 2**16:\n    print(1)\n",
    "if 1 << -1 or 2 ** -1 or 0 ** -1:\n    print(1)\n",
    "print(sum(range(2**63)), sum(i for i in range(2**64, 2**65)))\n",
    "if [0] * 2**62 or 'ab' * -(2**70):\n    print(1)\n",
    "if (2**70).bit_length() > 2**63 or (0.1).hex():\n    print(1)\n",
]
INVALID = ["def f(:\n    pass\n", "x = (1,\n", "   \n\n", "", "if x\n  y\n", "\tx = 1\n  y = 2\n", "print 'a'\n"]
POSITIONS = ["only", "first", "last", "nested", "eof-no-newline"]


def bounds(tier):
    return {"expressions": "C15 depth-1 family (sample)", "pool": "shared pool x {rule, format_code safe/unsafe}",
            "positions": POSITIONS, "rewrites": 2, "max_iter": "1..6", "file_passes": 25}


def ob_offsets(layout_name):
    """fill_transaction / get_charnos for insertions and node targets at every (line, col) incl. one past the end."""
    import ast
    import z3

    from vk import instrument, sym
    from vk.harness import c13
    from pyrefact import processing

    src = c13.LAYOUTS[layout_name]
    from vk import lines as L

    ls = L.py_lines(src)
    maxcol = max([len(t) - len(t.lstrip(" ")) for _s, _e, t in ls] + [4])

    def harness(eng):
        # An inserted node is a copy of an existing statement whose start was moved (fixes._move_before_scope /
        # _move_after_scope, object_oriented, tracing): (lineno, col) is the synthesised target - any line up to one
        # past the last, any indentation that occurs in the file - while the end position is stale.
        ln, col, eln, ecol = eng.var("ln"), eng.var("col"), eng.var("eln"), eng.var("ecol")
        eng.require(z3.And(1 <= ln, ln <= len(ls) + 1, 0 <= col, col <= maxcol, 1 <= eln, eln <= len(ls),
                           0 <= ecol, ecol <= maxcol))
        node = ast.Expr(value=ast.Name(id="inserted", ctx=ast.Load()))
        node.lineno, node.col_offset = sym.SymInt(ln), sym.SymInt(col)
        node.end_lineno, node.end_col_offset = sym.SymInt(eln), sym.SymInt(ecol)

        def rule(source):
            yield None, node

        rule.__name__ = "rule"
        try:
            processing._schedule_rewrites(src, [(rule, [src], {})])
            eng.claim(True)
        except Exception as e:  # noqa: BLE001
            m = eng.model()
            eng.claim(False, info={"what": "raises", "exception": type(e).__name__, "insertion": True,
                                   "lineno": sym.concretize(ln, m), "col": sym.concretize(col, m),
                                   "end": [sym.concretize(eln, m), sym.concretize(ecol, m)]})

    eng = sym.Engine(budget_s=120, max_paths=100000, max_cex=3)
    eng.max_enum = 10000
    eng.path_hooks.append(instrument.reset_caches)
    return eng.explore(harness)


DR_SRC = "if c:\n    x = 1\n    y = 2\nz = 3\n"
DR_NEW = ["", "tok", "a = 1\nb = 2\n", "  ", "\n"]


def ob_do_rewrite():
    import z3

    from vk import instrument, sym
    from pyrefact import core, processing

    def harness(eng):
        a, b, k = eng.var("a"), eng.var("b"), eng.var("k")
        eng.require(z3.And(0 <= a, a <= b, b <= len(DR_SRC), 0 <= k, k < len(DR_NEW)))
        valid = {}

        def is_valid(text):
            if text not in valid:
                valid[text] = eng.var("valid_%d" % len(valid), "bool")
            return sym.SymBool(valid[text])

        saved = core.is_valid_python
        core.is_valid_python = is_valid
        try:
            new = DR_NEW[sym.SymInt(k).__index__()]
            out = processing._do_rewrite(DR_SRC, processing._Rewrite(core.Range(sym.SymInt(a), sym.SymInt(b)), new))
            eng.claim(isinstance(out, str), info={"what": "not a string"})
        except Exception as e:  # noqa: BLE001
            m = eng.model()
            eng.claim(False, info={"what": "raises", "exception": type(e).__name__, "a": sym.concretize(a, m),
                                   "b": sym.concretize(b, m), "new": DR_NEW[sym.concretize(k, m)],
                                   "valid": {t: sym.concretize(v, m) for t, v in valid.items()}})
        finally:
            core.is_valid_python = saved

    eng = sym.Engine(budget_s=200, max_paths=300000, max_cex=3)
    eng.max_enum = 100000
    eng.path_hooks.append(instrument.reset_caches)
    return eng.explore(harness)


def ob_budget(which):
    """Loops terminate within their budgets for a rule that keeps changing the text a solver-chosen number of times."""
    import importlib
    import z3

    from vk import sym
    from pyrefact import core, processing

    main = importlib.import_module("pyrefact.main")

    def harness(eng):
        n = eng.var("changes")
        eng.require(z3.And(0 <= n, n <= 60))
        calls = [0]

        def keeps_changing():
            calls[0] += 1
            return bool(sym.SymInt(n) >= calls[0])

        if which.startswith("fix") or which.startswith("chain"):
            k = int(which.split("/")[1])

            def rule(source):
                if keeps_changing():
                    yield core.Range(0, 0), "x%d = 1\n" % calls[0]

            rule.__name__ = "rule"
            f = processing.fix(rule, max_iter=k) if which.startswith("fix") else processing.chain([rule], max_iter=k)
            f("y = 0\n")
            eng.claim(calls[0] <= k, info={"what": "budget exceeded", "calls": calls[0], "max_iter": k})
            return
        saved = main._multi_run_fixes
        counter = [0]

        def stub(source, preserve):
            if keeps_changing():
                counter[0] += 1
                return source + "x%d = %d\n" % (counter[0], counter[0])
            return source

        main._multi_run_fixes = stub
        try:
            main.format_code("print(1)\n", safe=True)
        finally:
            main._multi_run_fixes = saved
        eng.claim(calls[0] <= 2 * main.MAX_FILE_PASSES, info={"what": "budget exceeded", "calls": calls[0]})

    eng = sym.Engine(budget_s=240, max_paths=500, max_cex=2)
    return eng.explore(harness)


SLOW_INPUTS = [
    "x = 1\nprint(x + 1)\n" + "\n" * 60, "x = 1\n" + "\n" * 40 + "y = 2\n" + "\n" * 45, "\n" * 70, "def f():\n    return 1\n" + "    \n" * 50,
    "x = 1" + " " * 3000 + "\n", "# c\n" * 100, "x = (" + "(" * 60 + "1" + ")" * 60 + ")\n", "x = " + " + ".join(["1"] * 400) + "\n",
    "x = [" + ", ".join("[%d]" % i for i in range(300)) + "]\n", "if x:\n" + "    pass\n" * 300, "s = '" + "a" * 5000 + "'\n",
    "x = 1 \\\n" + "\n" * 30, "print(1) \\\n\n",
]
TIME_LIMIT_S = 40


def ob_termination(index):
    """format_code returns within the time limit on inputs built to provoke super-linear behaviour of the text stages
    (runs of blank lines, long lines, deep nesting, long chains). Concrete witness: there is no symbolic input here."""
    import signal

    import pyrefact

    src = SLOW_INPUTS[index]

    class _T(BaseException):
        pass

    def on_alarm(*a):
        raise _T()

    old = signal.signal(signal.SIGALRM, on_alarm)
    signal.setitimer(signal.ITIMER_REAL, TIME_LIMIT_S)
    what = None
    try:
        out = pyrefact.format_code(src)
        if not isinstance(out, str):
            what = "not a string"
    except _T:
        what = "timeout"
    except Exception as e:  # noqa: BLE001
        what = "raises:%s" % type(e).__name__
    finally:
        signal.setitimer(signal.ITIMER_REAL, 0)
        signal.signal(signal.SIGALRM, old)
    return {"status": "refuted" if what else "confirmed", "paths": 1, "checks": 0, "solver_s": 0.0, "claims": 1,
            "cexs": [{"model": {}, "info": {"what": what}}] if what else []}


def ob_invalid():
    import pyrefact

    bad = []
    for s in INVALID:
        for kw in (dict(), dict(safe=True), dict(keep_imports=True)):
            try:
                out = pyrefact.format_code(s, **kw)
                if not isinstance(out, str) or "".join(out.split()) != "".join(s.split()):
                    bad.append((s, "changed: %r" % (out,)))
            except Exception as e:  # noqa: BLE001
                bad.append((s, repr(e)))
    return {"status": "refuted" if bad else "confirmed", "paths": len(INVALID) * 3, "checks": 0, "solver_s": 0.0,
            "claims": len(INVALID) * 3, "cexs": [{"model": {}, "info": {"what": "invalid input", "cases": str(bad)[:400]}}] if bad else []}


def _positions(sk_text, first_line):
    """The same program with the snippet as only / first / last / nested statement, and without a final newline."""
    yield "as-is", sk_text
    yield "eof-no-newline", sk_text.rstrip("\n")


def obligations(tier, seed):
    from vk.harness import c13, c15

    rnd = random.Random(seed)
    quick = tier == "quick"
    obs = []
    exprs = c15.depth1()
    sample = rnd.sample(exprs, 500 if quick else len(exprs))
    for i in range(0, len(sample), 50):
        obs.append(Obligation("literal_value/%d" % (i // 50), c15.ob_batch, {"exprs": sample[i:i + 50]}, hard_timeout=1500,
                              sample={"expressions": sample[i:i + 3]}))
    for name in c13.LAYOUTS:
        obs.append(Obligation("offsets/%s" % name, ob_offsets, {"layout_name": name}, hard_timeout=300,
                              sample={"layout": c13.LAYOUTS[name]}))
    obs.append(Obligation("do_rewrite", ob_do_rewrite, {}, hard_timeout=400, sample={"source": DR_SRC, "replacements": DR_NEW}))
    for which in ["fix/1", "fix/3", "fix/5", "chain/2", "chain/10", "format_code"]:
        obs.append(Obligation("budget/%s" % which, ob_budget, {"which": which}, hard_timeout=400, sample={"loop": which}))
    obs.append(Obligation("invalid-input", ob_invalid, {}, sample={"inputs": INVALID}))
    for i in range(len(SLOW_INPUTS)):
        obs.append(Obligation("termination/%d" % i, ob_termination, {"index": i}, hard_timeout=TIME_LIMIT_S + 30,
                              sample={"input": SLOW_INPUTS[i][:60] + "...", "length": len(SLOW_INPUTS[i])}))
    # pool
    sks = poolfam.pool_skeletons(tier, seed) + poolfam.direct_edit_skeletons()
    frag = [pool.Skeleton("fragment/%d" % i, t, meta={"rule": None}) for i, t in enumerate(FRAGMENTS)]
    frag += [pool.Skeleton("extreme/%d" % i, t, meta={"rule": None}) for i, t in enumerate(EXTREME)]
    eof = poolfam.eof_skeletons()
    jobs = []
    base = sks + frag + eof
    if quick:
        base = rnd.sample(sks, min(len(sks), 90)) + frag + eof
    for sk in base:
        for pos, text in _positions(sk.text, 0):
            s2 = pool.Skeleton("%s@%s" % (sk.sid, pos), text, lits=sk.lits, tape=sk.tape, meta=sk.meta)
            if sk.meta.get("rule"):
                jobs.append((s2, sk.meta["rule"]))
            jobs.append((s2, "format_code:safe=1"))
            jobs.append((s2, "format_code:safe=0,keep_imports=1"))
    # opt-out comments change which edits go through (a rule whose edit is refused must still terminate): every
    # physical line of the direct-edit skeletons annotated in turn, and one line of a sample of the pool
    from vk import rulefam

    def _body_lines(sk):
        return [i for i, l in enumerate(sk.text.split("\n"))
                if l.strip() and i >= sk.meta.get("first_line", 0) and not l.strip().startswith(("\"\"\"", "'''"))]

    ann_jobs = []
    for sk in poolfam.direct_edit_skeletons() + rulefam.tricky_skeletons():
        for li in _body_lines(sk):
            ann_jobs.append((sk, li))
    r2 = random.Random(seed + 7)
    for sk in (r2.sample(sks, 40) if quick else sks):
        body = _body_lines(sk)
        for li in (r2.sample(body, min(len(body), 2)) if quick else body[::2]):
            ann_jobs.append((sk, li))
    for sk, li in ann_jobs:
        lines = sk.text.split("\n")
        lines[li] = lines[li] + "  # pyrefact: ignore"
        try:
            ast.parse("\n".join(lines))
        except SyntaxError:
            continue  # a comment after a line-continuation backslash: the annotated text is not Python any more
        s2 = pool.Skeleton("%s@ignore%d" % (sk.sid, li), "\n".join(lines), lits=sk.lits, tape=sk.tape, meta=sk.meta)
        if sk.meta.get("rule"):
            jobs.append((s2, sk.meta["rule"]))
        jobs.append((s2, "format_code:safe=0"))
    rules = [t for t in poolfam.scheduled_rules() if "numpy" not in t and "pandas" not in t]
    for sk in frag:
        if sk.sid.startswith("extreme/"):
            for tr in ("rule:fixes.delete_unreachable_code", "rule:fixes.remove_dead_ifs", "rule:fixes.move_before_loop",
                       "rule:symbolic_math.simplify_constrained_range", "rule:symbolic_math.simplify_math_iterators",
                       "rule:fixes.remove_redundant_boolop_values", "rule:symbolic_math.simplify_boolean_expressions"):
                jobs.append((sk, tr))
    for sk in (rnd.sample(sks, 6) + rnd.sample(eof, 40) if quick else sks[::3] + eof):
        for tr in rules:
            jobs.append((sk, tr))
    for sk, tr in jobs:
        obs.append(Obligation("pool/%s/%s" % (tr.split(":", 1)[1][:40], sk.sid), pool.ob_prop,
                              {"skeleton": sk.to_json(), "transform": tr, "mode": "total"}, hard_timeout=150,
                              sample={"program": sk.text[-300:], "transform": tr}))
    return obs


def case_of(ob, r, cex):
    info = cex.get("info") or {}
    if ob.oid.startswith("pool/"):
        return pool.prop_case(ob, r, cex)
    if ob.oid.startswith("literal_value/"):
        from vk.harness import c15

        return c15.case_of(ob, r, cex)
    what = info.get("what", "?")
    if what == "raises":
        what = "raises:%s" % info.get("exception")
    return {"kind": ob.oid.split("/")[0], "params": ob.params, "model": cex["model"], "info": info,
            "key": "%s|%s" % (ob.oid, what)}


def replay(case):
    import ast

    from pyrefact import core, processing

    k = case["kind"]
    if k == "prop":
        return pool.prop_replay(case)
    if k == "expr":
        from vk.harness import c15

        r = c15.replay(case)
        # only the totality part of C15's verdict belongs here
        if r.get("reproduced") and "raises" not in (r.get("key") or "") and "effects" not in (r.get("key") or ""):
            r["reproduced"] = False
        return r
    info = case.get("info") or {}
    if k == "offsets":
        from vk.harness import c13

        src = c13.LAYOUTS[case["params"]["layout_name"]]
        node = ast.Expr(value=ast.Name(id="inserted", ctx=ast.Load()))
        node.lineno, node.col_offset = info["lineno"], info["col"]
        node.end_lineno, node.end_col_offset = info.get("end", [1, 0])

        def rule(source):
            if info["insertion"]:
                yield None, node
            else:
                yield node, None

        rule.__name__ = "rule"
        try:
            processing._schedule_rewrites(src, [(rule, [src], {})])
            return {"reproduced": False, "detail": "no exception"}
        except Exception as e:  # noqa: BLE001
            return {"reproduced": True, "key": "%s|raises:%s" % (case["oid"], type(e).__name__),
                    "detail": "scheduling %s at line %d col %d of %r raised %r" % (
                        "an insertion" if info["insertion"] else "a removal", info["lineno"], info["col"], src, e)}
    if k == "do_rewrite":
        valid = info.get("valid", {})
        saved = core.is_valid_python
        core.is_valid_python = lambda text: bool(valid.get(text, False))
        try:
            processing._do_rewrite(DR_SRC, processing._Rewrite(core.Range(info["a"], info["b"]), info["new"]))
            return {"reproduced": False, "detail": "no exception"}
        except Exception as e:  # noqa: BLE001
            return {"reproduced": True, "detail": "_do_rewrite(%r, Range(%d,%d) -> %r) raised %r" % (DR_SRC, info["a"], info["b"], info["new"], e)}
        finally:
            core.is_valid_python = saved
    if k == "budget":
        import importlib

        main = importlib.import_module("pyrefact.main")
        n = case["model"].get("changes", 60)
        which = case["params"]["which"]
        calls = [0]

        def keeps_changing():
            calls[0] += 1
            return n >= calls[0]

        if which.startswith(("fix", "chain")):
            kk = int(which.split("/")[1])

            def rule(source):
                if keeps_changing():
                    yield core.Range(0, 0), "x%d = 1\n" % calls[0]

            rule.__name__ = "rule"
            f = processing.fix(rule, max_iter=kk) if which.startswith("fix") else processing.chain([rule], max_iter=kk)
            f("y = 0\n")
            return {"reproduced": calls[0] > kk, "detail": "%s ran the rule %d times" % (which, calls[0])}
        saved = main._multi_run_fixes
        counter = [0]

        def stub(source, preserve):
            if keeps_changing():
                counter[0] += 1
                return source + "x%d = %d\n" % (counter[0], counter[0])
            return source

        main._multi_run_fixes = stub
        try:
            main.format_code("print(1)\n", safe=True)
        finally:
            main._multi_run_fixes = saved
        return {"reproduced": calls[0] > 2 * main.MAX_FILE_PASSES, "detail": "format_code ran _multi_run_fixes %d times" % calls[0]}
    if k == "termination":
        d = ob_termination(case["params"]["index"])
        w = (d["cexs"] or [{"info": {}}])[0]["info"].get("what")
        return {"reproduced": d["status"] == "refuted", "key": "%s|%s" % (case["oid"], w),
                "detail": "format_code on %r... (%d chars): %s (limit %ds)" % (SLOW_INPUTS[case["params"]["index"]][:50],
                                                                           len(SLOW_INPUTS[case["params"]["index"]]), w, TIME_LIMIT_S)}
    if k == "invalid-input":
        d = ob_invalid()
        return {"reproduced": d["status"] == "refuted", "detail": str(d["cexs"])[:500]}
    raise ValueError(k)


def evidence_extra(obligations, results):
    pool_obs = [r for ob, r in zip(obligations, results) if ob.oid.startswith("pool/")]
    return {"pool_obligations": len(pool_obs), "pool_changed_text": sum(1 for r in pool_obs if r.get("fired")),
            "pool_branched": sum(1 for r in pool_obs if (r.get("notes") or {}).get("branched_on"))}
