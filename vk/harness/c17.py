"""C17 - boolean, comparison and range rewrites are logically equivalent.

Every constant of the condition is a marker literal (solver variable ranging over all naturals
< 10**6, negated constants are separate shapes) and every variable is a run-time input (any
integer): the real rule is run in symbolic-literal mode on the skeleton - forking wherever it
compares literals - and on every path the original and the rewritten program are executed
symbolically; z3 decides `value before == value after` for all literal and variable values at once
(linear integer arithmetic, no box)."""
from __future__ import annotations

import random

from vk import families, pool
from vk.common import Obligation

PROPERTY = "C17"
LEVEL = "model_checking"
ENCODED = [
    "pyrefact.symbolic_math:simplify_boolean_expressions",
    "pyrefact.symbolic_math:simplify_boolean_expressions_symmath",
    "pyrefact.symbolic_math:simplify_constrained_range",
    "pyrefact.symbolic_math:simplify_math_iterators",
    "pyrefact.fixes:_negate_condition",
    "pyrefact.fixes:swap_if_else",
    "pyrefact.fixes:early_continue",
    "pyrefact.fixes:replace_negated_numeric_comparison",
    "pyrefact.fixes:remove_redundant_boolop_values",
    "pyrefact.fixes:singleton_eq_comparison",
    "pyrefact.core:literal_value",
    "pyrefact.processing:_schedule_rewrites",
    "pyrefact.processing:_do_rewrite",
]
STUBS = ["sympy is not executed symbolically: it runs concretely on the formula's shape (atoms are opaque names); "
         "text with markers is never handed to it (MarkerEscape -> those skeletons use names / enumerated literals)"]
ASSUMPTIONS = [
    "marker literals range over naturals < 10**6 (a literal token is never negative; -c is a separate shape)",
    "run-time variables are arbitrary integers written as differences of two naturals < 10**6",
    "range bounds in family (d) are boxed to 0..6 (steps 1..3) so that comprehension lengths stay below the fuel",
    "floats appear only as results of `/` and are modelled as reals",
]
OUTSIDE = ["formulas larger than the families", "non-integer variable values", "identity between non-singleton numbers"]

R_BOOL = "rule:symbolic_math.simplify_boolean_expressions"
R_SYM = "rule:symbolic_math.simplify_boolean_expressions_symmath"
R_RANGE = "rule:symbolic_math.simplify_constrained_range"
R_MATH = "rule:symbolic_math.simplify_math_iterators"


def bounds(tier):
    return {"comparisons_per_formula": 2 if tier == "quick" else 3,
            "symmath_formula_size": 3 if tier == "quick" else 4,
            "literals": "all naturals < 10**6 (symbolic)", "variables": "all integers (symbolic)",
            "range_box": "0..6, step 1..3", "fuel": 400}


def _obs(fam, transform, prefix, **kw):
    out = []
    for sk in fam:
        out.append(Obligation("%s/%s" % (prefix, sk.sid), pool.ob_tv,
                              dict(skeleton=sk.to_json(), transform=transform, **kw),
                              hard_timeout=kw.get("budget_s", 60) + 30,
                              sample={"program": sk.text, "transform": transform}))
    return out


def obligations(tier, seed):
    rnd = random.Random(seed)
    quick = tier == "quick"
    obs = []
    obs += _obs(families.c17_two_comparisons(), R_BOOL, "bool")
    mixed = list(families.c17_mixed())
    obs += _obs(mixed if not quick else rnd.sample(mixed, 80), R_BOOL, "bool")
    three = list(families.c17_three_comparisons())
    obs += _obs(three if not quick else rnd.sample(three, 60), R_BOOL, "bool")
    for kind in ("bool", "int", "cmp"):
        fam = list(families.c17_symmath(3 if quick else 4, kind))
        if quick:
            fam = rnd.sample(fam, min(len(fam), 60))
        elif len(fam) > 1500:
            fam = rnd.sample(fam, 1500)
        obs += _obs(fam, R_SYM, "symmath")
    obs += _obs(families.c17_negate_swap(), "rule:fixes.swap_if_else", "neg")
    obs += _obs(families.c17_negate_early_continue(), "rule:fixes.early_continue", "neg")
    obs += _obs(families.c17_negated_numeric(), "rule:fixes.replace_negated_numeric_comparison", "neg")
    rb = list(families.c17_redundant_boolop())
    obs += _obs(rb if not quick else rnd.sample(rb, 120), "rule:fixes.remove_redundant_boolop_values", "rb")
    obs += _obs(families.c17_singleton_eq(), "rule:fixes.singleton_eq_comparison", "sing")
    obs += _obs(families.c17_constrained_range(tier), R_RANGE, "range", budget_s=90.0)
    obs += _obs(families.c17_math_iterators(), R_MATH, "math", budget_s=90.0)
    if not quick:
        # the same conditions through the whole pipeline
        obs += _obs(list(families.c17_two_comparisons())[::3], "format_code:safe=1", "pipe", budget_s=60.0)
        obs += _obs(list(families.c17_constrained_range("quick"))[::3], "format_code:safe=1", "pipe", budget_s=60.0)
        obs += _obs(families.c17_math_iterators(), "format_code:safe=1", "pipe", budget_s=60.0)
        obs += _obs(families.c17_singleton_eq(), "format_code:safe=1", "pipe", budget_s=60.0)
    return obs


def case_of(ob, r, cex):
    return pool.tv_case(ob, r, cex)


def replay(case):
    return pool.tv_replay(case)


def evidence_extra(obligations, results):
    fired = sum(1 for r in results if r.get("fired"))
    trivial = sum(1 for r in results if r.get("trivial"))
    return {"programs": len(results), "rule_fired_on": fired, "trivial_not_counted": trivial}
