"""C13 - match objects and the re-like API are geometrically coherent.

(a) real `core.Match._lineno_col_offset` for a symbolic span start over concrete line layouts (empty lines, no
    trailing newline, CRLF, form feed, U+2028, non-ASCII) vs an independent line model (the tokenizer's lines);
(b) real `core.get_charnos` for symbolic node positions over the same layouts vs the stdlib convention (UTF-8
    byte columns) - the engine concretises at the string slice, so this part is bounded enumeration through the
    solver and labelled so;
(c) finditer / findall / search / match / fullmatch coherence and per-match geometry (inside the source, text =
    slice of span = complete text of the node, line/column of the span start) on sources whose constants are
    marker literals, so the occurrence set differs from path to path; the command-line finder prints the same
    locations (concrete witness)."""
from __future__ import annotations

import ast
import random

from vk import lines as L

PROPERTY = "C13"
LEVEL = "model_checking"
ENCODED = ["pyrefact.core:Match._lineno_col_offset", "pyrefact.core:_get_line_start_charnos", "pyrefact.core:get_charnos",
           "pyrefact.pattern_matching:finditer", "pyrefact.pattern_matching:findall", "pyrefact.pattern_matching:search",
           "pyrefact.pattern_matching:match", "pyrefact.pattern_matching:fullmatch", "pyrefact.pattern_matching:main"]
STUBS = []
ASSUMPTIONS = [
    "physical lines end at \\n, \\r\\n, \\r only (tokenizer rule); ast columns are UTF-8 byte offsets; the column "
    "reported for a match is the number of characters between the line start and the span start",
    "(b) and the geometry part of (c) run on concrete layouts / shapes; the symbolic dimension is the position "
    "(a, b) and the marker constants (c)",
]
OUTSIDE = ["'the slice is the complete text of the node' for arbitrary sources (only the enumerated shapes)"]

LAYOUTS = {
    "plain": "ab = 1\n\ncd = 22\nlast = 3\n",
    "no-trailing-newline": "ab = 1\ncd = 2",
    "crlf": "ab = 1\r\n\r\ncd = 2\r\n",
    "empty-lines": "\n\nab = 1\n\n\ncd = 2\n",
    "non-ascii": "s = 'éé'; x = 1\ny = 'ü'\nzz = 2\n",
    "formfeed": "s = 'a\x0cb'\nx = 1\ny = 2\n",
    "formfeed-between-defs": "x = 1\n\x0c\ny = 2\nz = 3\n",
    "unicode-sep": "s = 'a\u2028b'\nx = 1\ny = 2\n",
    "fs-char": "s = 'a\x1cb'\nx = 1\n",
    "indented": "if x:\n    y = 1\n    z = (2 +\n         3)\n",
    "short-last-line": "def f():\n    if x:\n        a = 1\ny\n",
}


def bounds(tier):
    return {"layouts": sorted(LAYOUTS), "span_start": "all 0 <= s <= len(source) (symbolic)",
            "node_positions": "all (line, column) pairs of the layout (symbolic, concretised)"}


def ob_lineno(layout):
    import z3
    from vk import instrument, sym
    from pyrefact import core

    src = LAYOUTS[layout]
    ls = L.py_lines(src)

    def harness(eng):
        s = eng.var("s")
        eng.require(z3.And(0 <= s, s <= len(src)))
        m = core.Match(core.Range(sym.SymInt(s), sym.SymInt(s)), src, ())
        ln, col = m._lineno_col_offset()
        ln_t, col_t = sym.term(ln), sym.term(col)
        conds = []
        for i, (st, en, _t) in enumerate(ls):
            hi = en if i + 1 < len(ls) else len(src) + 1
            conds.append(z3.Implies(z3.And(s >= st, s < hi), z3.And(ln_t == i + 1, col_t == s - st)))
        if not ls:
            conds.append(z3.BoolVal(True))
        eng.claim(z3.And(*conds), info=lambda mdl: {"lineno": sym.concretize(ln, mdl), "col": sym.concretize(col, mdl)})

    eng = sym.Engine(budget_s=60, max_cex=3)
    eng.path_hooks.append(instrument.reset_caches)
    return eng.explore(harness)


class _FakeNode(ast.expr):
    _fields = ()


def ob_charnos(layout):
    """get_charnos with symbolic (lineno, byte column) start/end over a layout vs the stdlib convention."""
    import z3
    from vk import instrument, sym
    from pyrefact import core

    src = LAYOUTS[layout]
    ls = L.py_lines(src)
    blen = [len(t.encode("utf-8")) for _s, _e, t in ls]
    # valid byte columns: character boundaries only
    valid = []
    for i, (_s, _e, t) in enumerate(ls):
        cols, b = [0], 0
        for ch in t:
            b += len(ch.encode("utf-8"))
            cols.append(b)
        valid.append(cols)

    def harness(eng):
        l0, c0, l1, c1 = (eng.var(n) for n in ("l0", "c0", "l1", "c1"))
        eng.require(z3.And(1 <= l0, l0 <= l1, l1 <= len(ls)))
        eng.require(z3.Or(*[z3.And(l0 == i + 1, z3.Or(*[c0 == c for c in valid[i]])) for i in range(len(ls))]))
        eng.require(z3.Or(*[z3.And(l1 == i + 1, z3.Or(*[c1 == c for c in valid[i]])) for i in range(len(ls))]))
        eng.require(z3.Or(l0 < l1, c0 <= c1))
        node = _FakeNode()
        node.lineno, node.col_offset = sym.SymInt(l0), sym.SymInt(c0)
        node.end_lineno, node.end_col_offset = sym.SymInt(l1), sym.SymInt(c1)
        got = core.get_charnos(node, src)
        m = eng.model()
        L0, C0, L1, C1 = (m.eval(v, model_completion=True).as_long() for v in (l0, c0, l1, c1))
        rs, re_ = L.charno(src, L0, C0), L.charno(src, L1, C1)
        seg = src[rs:re_]
        # documented adjustment: blanks at either end of the slice are not part of the node's text
        while seg.startswith(" "):
            seg, rs = seg[1:], rs + 1
        while seg.endswith(" "):
            seg, re_ = seg[:-1], re_ - 1
        gs, ge = sym.concretize(got.start, m), sym.concretize(got.end, m)
        eng.claim((gs, ge) == (rs, re_) or src[gs:ge] == seg and rs == re_,
                  info={"pos": [L0, C0, L1, C1], "got": [gs, ge], "want": [rs, re_]})

    eng = sym.Engine(budget_s=150, max_cex=3, max_paths=200000)
    eng.max_enum = 100000
    eng.path_hooks.append(instrument.reset_caches)
    return eng.explore(harness)


API_SOURCES = [
    "x = 7000\ny = 7001\nx = 7000\n", "f(7000)\nif c:\n    f(7001)\n    g(7000)\n", "a = 7000 + 7001\nb = 7001 + 7000\n",
    "@dec\ndef f(a):\n    return a + 7000\n\n\nx = 7000\n", "x = (7000 +\n     7001)\ny = 7000\n", "s = 'é'; x = 7000\ny = 7001\n",
    "x = 7000  # c\n\n\ny = 7001", "class A:\n    x = 7000\n\n    def m(self):\n        return 7001\n", "x = 7000; y = 7001; x = 7001\n",
    "if a:\n    x = 7000\nelif b:\n    x = 7001\nelse:\n    x = 7000\n",
    # the match that starts at the first statement sits deeper in the tree than a match in a later statement
    # (finditer yields in breadth-first tree order, not in source order)
    "x(7000)\nx\n", "g(f(7000)).real + 2\nf(7001)\n", "a = [f(7000), [f(7001)]]\nf(7000)\n",
    "(7000 + 7001) * 2\n7000 + 7001\n", "def f(a):\n    return a + 7000\n\n\nreturn_ = 7001 + 7000\n",
    # decorated definitions: at offset 0, after other code, indented, blank / parenthesis after the `@`
    "@dec\nclass K:\n    x = 7000\n", "@ dec\ndef f(a):\n    return a + 7000\n", "@(dec)\ndef f(a):\n    return 7000\n",
    "x = 7000\n@a.b(7001)\n@c\ndef f(a):\n    return 7000\n", "if c:\n    @dec\n    def f(a):\n        return 7000\n\n    @dec\n    class K:\n        pass\n",
    "@dec\nasync def f(a):\n    return 7000\n",
]
API_PATTERNS = ["x", "x = 7000", "x = {{v}}", "{{t}} = {{v}}", "f({{x}})", "{{a}} + {{b}}", "{{a}} + {{a}}", "{{t}} = {{v}}\n{{u}} = {{v}}",
                "7000", "return {{x}}", "def {{f}}({{a}}):\n    {{...*}}", "{{x}} = {{v}}\n{{y}} = {{w}}\n{{x}} = {{z}}",
                "@{{d}}\ndef {{f}}({{a}}):\n    {{...*}}", "@{{...+}}\ndef {{f}}({{a}}):\n    {{...*}}", "@{{d}}\nclass {{c}}:\n    {{...*}}",
                "@{{d}}\nasync def {{f}}({{a}}):\n    {{...*}}"]


def _deco_start(src, node):
    """Offset of the `@` that opens the first decorator of a definition (the decorator expression itself may be
    preceded by blanks or an opening parenthesis: `@ dec`, `@(dec)`)."""
    d = min(node.decorator_list, key=lambda x: (x.lineno, x.col_offset))
    p = L.charno(src, d.lineno, 0)
    while src[p] in " \t":
        p += 1
    assert src[p] == "@", (src, p)
    return p


def _geometry_problems(src, matches, pm, check_cli=False):
    """Everything the statement says about reported matches, on one concrete (pattern, source) run."""
    bad = []
    tree = ast.parse(src)
    segs = set()
    for n in ast.walk(tree):
        if hasattr(n, "lineno") and hasattr(n, "end_lineno"):
            s, e = L.charno(src, n.lineno, n.col_offset), L.charno(src, n.end_lineno, n.end_col_offset)
            segs.add((s, e))
            if getattr(n, "decorator_list", None):
                segs.add((_deco_start(src, n), e))
    # statement sequences: from the start of one statement to the end of a later one in the same body
    for n in ast.walk(tree):
        for bn in ("body", "orelse", "finalbody"):
            body = getattr(n, bn, None)
            if isinstance(body, list) and body and isinstance(body[0], ast.stmt):
                for i in range(len(body)):
                    for j in range(i, len(body)):
                        segs.add((L.charno(src, body[i].lineno, body[i].col_offset),
                                  L.charno(src, body[j].end_lineno, body[j].end_col_offset)))
    ls = L.py_lines(src)
    for m in matches:
        s, e = m.span.start, m.span.end
        if not (0 <= s <= e <= len(src)):
            bad.append("span %s outside the source" % ((s, e),))
            continue
        if m.string != src[s:e]:
            bad.append("string != source[span]")
        if (s, e) not in segs:
            bad.append("span %s (%r) is not the complete text of a node / statement sequence" % ((s, e), src[s:e][:40]))
        want = None
        for i, (st, en, _t) in enumerate(ls):
            hi = en if i + 1 < len(ls) else len(src) + 1
            if st <= s < hi:
                want = (i + 1, s - st)
        if (m.lineno, m.col_offset) != want:
            bad.append("lineno/col %s != position of span start %s" % ((m.lineno, m.col_offset), want))
    return bad


def ob_api(pattern, source):
    from vk import instrument, markers, sym
    from pyrefact import pattern_matching as pm

    used = markers.markers_in(source + "\n" + pattern)

    def harness(eng):
        markers.declare(eng, used)
        it = list(pm.finditer(pattern, source))
        fa = pm.findall(pattern, source)
        se = pm.search(pattern, source)
        ma = pm.match(pattern, source)
        fm = pm.fullmatch(pattern, source)
        probs = []
        spans = [(sym.concretize(m.span.start, eng.model()), sym.concretize(m.span.end, eng.model())) for m in it]
        if fa != [m.string for m in it]:
            probs.append("findall != texts of finditer")
        if (se is None) != (not it) or (se is not None and tuple(se.span) != tuple(it[0].span)):
            probs.append("search is not the first finditer result")
        tree = ast.parse(source)
        if tree.body:
            first = L.charno(source, tree.body[0].lineno, tree.body[0].col_offset)
            if getattr(tree.body[0], "decorator_list", None):
                first = _deco_start(source, tree.body[0])
            last = L.charno(source, tree.body[-1].end_lineno, tree.body[-1].end_col_offset)
            if (ma is not None) != any(s == first for s, _e in spans):
                probs.append("match() %s but matches start at %s (first statement at %d)" % (
                    "succeeds" if ma is not None else "fails", [s for s, _ in spans], first))
            if (fm is not None) != any((s, e) == (first, last) for s, e in spans):
                probs.append("fullmatch() %s but spans are %s (module body %s)" % (
                    "succeeds" if fm is not None else "fails", spans, (first, last)))
        probs += _geometry_problems(source, it, pm)
        eng.claim(not probs, info={"problems": probs[:4], "n_matches": len(it)})

    eng = sym.Engine(budget_s=60, max_cex=2)
    eng.path_hooks.append(instrument.reset_caches)
    return eng.explore(harness)


def ob_api_batch(batch):
    agg = {"status": "confirmed", "paths": 0, "branches": 0, "checks": 0, "solver_s": 0.0, "claims": 0, "cexs": [],
           "inconclusive": []}
    for p, s in batch:
        d = ob_api(p, s).as_dict()
        for k in ("paths", "branches", "checks", "claims"):
            agg[k] += d[k]
        agg["solver_s"] += d["solver_s"]
        from vk import sym as _sym
        _sym.merge_xcheck(agg, d)
        for c in d["cexs"]:
            c["pattern"], c["source"] = p, s
            agg["cexs"].append(c)
        agg["inconclusive"] += d["inconclusive"]
    if agg["cexs"]:
        agg["status"] = "refuted"
    elif agg["inconclusive"]:
        agg["status"] = "inconclusive"
    return agg


def ob_cli():
    """`python -m pyrefact.pattern_matching find` prints the locations finditer reports (concrete witness)."""
    import contextlib
    import io
    import os
    import tempfile

    from pyrefact import pattern_matching as pm

    import pathlib

    bad = []
    n = 0
    sources = ["x = 1\ny = 2\nx = 1\n", "if c:\n    f(1)\n    f(2)\n"] + [LAYOUTS[k] for k in sorted(LAYOUTS)]
    with tempfile.TemporaryDirectory() as d:
        for i, src in enumerate(sources):
            path = os.path.join(d, "m%d.py" % i)
            with open(path, "w", encoding="utf-8", newline="") as f:
                f.write(src)
            text = pathlib.Path(path).read_text()  # what the command reads (universal newlines)
            ls = L.py_lines(text)
            for pat in ("x = 1", "f({{a}})", "{{t}} = {{v}}"):
                out = io.StringIO()
                with contextlib.redirect_stdout(out):
                    pm.main(["find", pat, path])
                want = []
                for m in pm.finditer(pat, text):
                    # location of the span start under the independent line model
                    loc = None
                    for k, (st, en, _t) in enumerate(ls):
                        hi = en if k + 1 < len(ls) else len(text) + 1
                        if st <= m.start < hi:
                            loc = (k + 1, m.start - st)
                    want.append("%s:%d:%d: %s" % (path, loc[0], loc[1], m.string.splitlines()[0]))
                n += 1
                if out.getvalue().splitlines() != want:
                    bad.append((pat, src, out.getvalue(), want))
                if i == 0 and pat == "x = 1":
                    # once through the entry point of the installed command (pyrefind), whose arguments come from sys.argv
                    import subprocess
                    import sys

                    from vk.common import REPO

                    env = dict(os.environ, PYTHONPATH=REPO)
                    # the way the installed console script calls it: main() without arguments
                    code = "import sys; from pyrefact.pattern_matching import main; sys.exit(main())"
                    p_ = subprocess.run([sys.executable, "-c", code, "find", pat, path],
                                        capture_output=True, text=True, env=env, timeout=120)
                    n += 1
                    if p_.stdout.splitlines() != want:
                        bad.append(("command line", pat, p_.stdout + p_.stderr[-300:], want))
    return {"status": "refuted" if bad else "confirmed", "paths": n, "checks": 0, "solver_s": 0.0, "claims": n,
            "cexs": [{"model": {}, "info": {"bad": str(bad)[:300]}}] if bad else []}


def obligations(tier, seed):
    from vk.common import Obligation

    obs = []
    for name in LAYOUTS:
        obs.append(Obligation("lineno/%s" % name, ob_lineno, {"layout": name}, sample={"layout": LAYOUTS[name]}))
        obs.append(Obligation("charnos/%s" % name, ob_charnos, {"layout": name}, hard_timeout=400,
                              sample={"layout": LAYOUTS[name]}))
    jobs = [(p, s) for p in API_PATTERNS for s in API_SOURCES]
    B = 10
    for i in range(0, len(jobs), B):
        obs.append(Obligation("api-batch/%d" % (i // B), ob_api_batch, {"batch": jobs[i:i + B]}, hard_timeout=600,
                              sample={"pattern": jobs[i][0], "source": jobs[i][1]}))
    obs.append(Obligation("cli", ob_cli, {}, sample={"command": "python -m pyrefact.pattern_matching find"}))
    return obs


def case_of(ob, r, cex):
    info = cex.get("info") or {}
    if ob.oid.startswith("lineno/"):
        lay = ob.params["layout"]
        s = cex["model"]["s"]
        return {"kind": "lineno", "layout": lay, "s": s, "key": "%s|%s" % (ob.oid, _region(lay, s))}
    if ob.oid.startswith("charnos/"):
        lay = ob.params["layout"]
        return {"kind": "charnos", "layout": lay, "pos": info.get("pos"),
                "key": "%s|%s" % (ob.oid, "line%d" % info.get("pos", [0])[0])}
    if ob.oid == "cli":
        return {"kind": "cli", "key": "cli"}
    return {"kind": "api", "pattern": cex["pattern"], "source": cex["source"], "model": cex["model"],
            "key": "api:%s/%s|geometry" % (cex["pattern"], cex["source"])}


def _region(layout, pos):
    src = LAYOUTS[layout]
    for i, (s, e, _t) in enumerate(L.py_lines(src)):
        if s <= pos < e:
            return "L%d" % (i + 1)
    return "EOF"


def replay(case):
    from pyrefact import core, pattern_matching as pm

    k = case["kind"]
    if k == "lineno":
        src = LAYOUTS[case["layout"]]
        s = case["s"]
        m = core.Match(core.Range(s, s), src, ())
        ls = L.py_lines(src)
        want = None
        for i, (st, en, _t) in enumerate(ls):
            hi = en if i + 1 < len(ls) else len(src) + 1
            if st <= s < hi:
                want = (i + 1, s - st)
        got = (m.lineno, m.col_offset)
        return {"reproduced": got != want, "detail": "Match at offset %d of %r: lineno/col %s, span start is at %s" % (s, src, got, want)}
    if k == "charnos":
        src = LAYOUTS[case["layout"]]
        L0, C0, L1, C1 = case["pos"]
        node = _FakeNode()
        node.lineno, node.col_offset, node.end_lineno, node.end_col_offset = L0, C0, L1, C1
        got = core.get_charnos(node, src)
        rs, re_ = L.charno(src, L0, C0), L.charno(src, L1, C1)
        seg = src[rs:re_]
        while seg.startswith(" "):
            seg, rs = seg[1:], rs + 1
        while seg.endswith(" "):
            seg, re_ = seg[:-1], re_ - 1
        ok = tuple(got) == (rs, re_) or (src[got.start:got.end] == seg and rs == re_)
        return {"reproduced": not ok,
                "detail": "get_charnos(node at %s) on %r = %s %r; stdlib convention: %s %r" % (
                    case["pos"], src, tuple(got), src[got.start:got.end], (rs, re_), seg)}
    if k == "cli":
        d = ob_cli()
        return {"reproduced": d["status"] == "refuted", "detail": str(d["cexs"])[:400]}
    from vk import markers

    values = {int(k2[1:]): v for k2, v in case["model"].items() if k2.startswith("c") and k2[1:].isdigit()}
    pat, src = markers.substitute(case["pattern"], values), markers.substitute(case["source"], values)
    it = list(pm.finditer(pat, src))
    probs = []
    if pm.findall(pat, src) != [m.string for m in it]:
        probs.append("findall != texts of finditer")
    se = pm.search(pat, src)
    if (se is None) != (not it) or (se is not None and tuple(se.span) != tuple(it[0].span)):
        probs.append("search is not the first finditer result")
    tree = ast.parse(src)
    spans = [tuple(m.span) for m in it]
    if tree.body:
        first = L.charno(src, tree.body[0].lineno, tree.body[0].col_offset)
        if getattr(tree.body[0], "decorator_list", None):
            first = _deco_start(src, tree.body[0])
        last = L.charno(src, tree.body[-1].end_lineno, tree.body[-1].end_col_offset)
        if (pm.match(pat, src) is not None) != any(s == first for s, _e in spans):
            probs.append("match() inconsistent with finditer starts %s (first statement at %d)" % ([s for s, _ in spans], first))
        if (pm.fullmatch(pat, src) is not None) != any((s, e) == (first, last) for s, e in spans):
            probs.append("fullmatch() inconsistent with finditer spans %s (module body %s)" % (spans, (first, last)))
    probs += _geometry_problems(src, it, pm)
    return {"reproduced": bool(probs), "detail": "pattern %r on %r: %s" % (pat, src, "; ".join(probs[:4]))}
