"""C07 - safe mode never removes or renames a module's public surface.

T = real `format_code(L, safe=True)` run in symbolic-literal mode on library skeletons L built to provoke every
deleting / renaming rule (unused, camelCase, duplicate, self-less, static, nested, magic, inherited definitions;
module- and class-level assigned names whose values are rule-visible marker literals). The observer is generated
from L's symbol table, is never shown to pyrefact, and merely *references* every name of the surface the
statement defines: each top-level function, class and assigned variable, each method and class-body attribute
through its class. On every path: executing L' and then resolving every surface name raises no NameError /
AttributeError. The statement is about names only; a changed behaviour of a kept definition is C01's business.

Degenerate symbolic dimension, said plainly: the only solver variables are the literals of L; deletion and renaming
do not normally depend on them, so most obligations are one path = one concrete run of the real pipeline
(evidence: branched_on). Claimed on these terms because it shares engine, pool and replay with C01 and is the
only observer of mechanisms such as the `| assignments` term of the safe preserve set."""
from __future__ import annotations

import ast
import itertools
import random

from vk import pool
from vk.common import Obligation

PROPERTY = "C07"
LEVEL = "model_checking"
ENCODED = ["pyrefact.main:format_code", "pyrefact.parsing:iter_assignments", "pyrefact.fixes:delete_unused_functions_and_classes",
           "pyrefact.fixes:align_variable_names_with_convention", "pyrefact.fixes:undefine_unused_variables",
           "pyrefact.fixes:remove_duplicate_functions", "pyrefact.object_oriented:move_staticmethod_static_scope",
           "pyrefact.object_oriented:remove_unused_self_cls", "pyrefact.fixes:delete_pointless_statements"]
STUBS = []
ASSUMPTIONS = ["surface = direct children of the module body (def / class / assignment targets incl. tuple, augmented "
               "and annotated targets with a value) and of top-level class bodies; imports, loop and with targets excluded",
               "degenerate symbolic dimension (see module docstring)"]
OUTSIDE = ["more than 6 definitions per library", "definitions nested in module-level if/try blocks"]

CHUNKS = {
    "unused_fn": "def unused_fn(a):\n    return a + 7000\n",
    "camel_fn": "def camelCaseFn(a):\n    return a\n",
    "helper_used": "def helper(a):\n    return a * 2\n\n\nRESULT = helper(7001)\n",
    "dups": "def dup_one(x):\n    return x + 1\n\n\ndef dup_two(y):\n    return y + 1\n",
    "selfless": "class Tool:\n    attr = 7002\n\n    def run(self, a):\n        return a\n\n    def other(self):\n        return self.attr\n",
    "static": "class Box:\n    @staticmethod\n    def make(a):\n        return a\n\n    @classmethod\n    def build(cls):\n        return cls()\n",
    "unused_cls": "class Unused:\n    pass\n",
    "camel_var": "someValue = 7000\n",
    "upper": "CONST = 7001\n",
    "lower": "value = 7002\nother_value = value\n",
    "private": "_private = 1\n",
    "nested": "def outer():\n    def inner():\n        return 1\n\n    return inner()\n",
    "magic": "class M:\n    def __init__(self):\n        self.x = 1\n\n    def __repr__(self):\n        return 'M'\n\n    def __len__(self):\n        return 7000\n",
    "inherit": "class Base:\n    def go(self):\n        return 1\n\n\nclass Child(Base):\n    def go(self):\n        return 2\n\n    def extra(self):\n        return 3\n",
    "tuple": "first, second = 7000, 7001\n",
    "aug": "counter = 0\ncounter += 7000\n",
    "annotated": "typed: int = 7000\n",
    "dead": "if 7000 > 7001:\n    pass\nflag = 7000 > 7001\n",
    "cfg": "class Cfg:\n    maxSize = 7000\n    MIN = 1\n\n    def getSize(self):\n        return self.maxSize\n",
    "shadow": "x = 7000\nx = 7001\n",
    "underscore": "_ = 7000\nresult = _\n",
    "lambda": "double = lambda v: v * 2\n",
    "chain": "a = b = 7000\n",
    "unused_method_cls": "class Svc:\n    def used(self):\n        return self.helper()\n\n    def helper(self):\n        return 1\n\n    def never_called(self):\n        return 2\n",
    "dup_cls": "class P:\n    def f(self):\n        return 1\n\n\nclass Q:\n    def f(self):\n        return 1\n",
    "prop": "class R:\n    @property\n    def val(self):\n        return 7000\n",
    "async": "async def fetch(a):\n    return a\n",
    "async_camel": "async def fetchData(a):\n    return a\n\n\nasync def useIt():\n    return await fetchData(7000)\n",
    "async_method": "class Client:\n    async def getItem(self, k):\n        return k\n\n    async def loadAll(self):\n        return await self.getItem(7000)\n",
    "camel_cls": "class myHandler:\n    def handleIt(self):\n        return 7000\n\n\nhandlerInstance = myHandler()\n",
    "dunder_var": "__version__ = '1.0'\n__all__ = ['x']\nx = 7000\n",
    "upper_fn": "def DoWork(a):\n    return a\n\n\nWORK = DoWork(7000)\n",
    "lambda_camel": "makeDouble = lambda v: v * 2\n",
    "global_in_fn": "totalCount = 0\n\n\ndef bumpIt():\n    global totalCount\n    totalCount += 7000\n",
    "nested_cls": "class Outer:\n    class innerThing:\n        valueX = 7000\n\n    def makeIt(self):\n        return self.innerThing()\n",
    "overload": "def handler(a):\n    return a\n\n\ndef handler(a, b=7000):\n    return a + b\n",
    "decorated": "import functools\n\n\n@functools.lru_cache(maxsize=None)\ndef cachedValue(a):\n    return a + 7000\n",
    "del_redefine": "tmp = 7000\ndel tmp\ntmp = 7001\n",
    # inputs on which the late steps of format_code (overused_constant, simplify_assign_immediate_return) still
    # change the text after the first fix-point loop, so that the second loop runs
    "assign_return": "def compute(a):\n    result = a + 7000\n    return result\n",
    "late_const": "def pick(k):\n    if k == 1:\n        return 'a fairly long repeated text'\n    if k == 2:\n        return 'a fairly long repeated text'\n    if k == 3:\n        return 'a fairly long repeated text'\n    if k == 4:\n        return 'a fairly long repeated text'\n    return 'a fairly long repeated text' * k\n",
    # names whose only top-level assignment statement is augmented / annotated / a tuple target / chained, and that
    # nothing reads (first bound by a loop, a global statement in a helper, a star import)
    "aug_only_loop": "for attempt in range(3):\n    pass\nattempt += 7000\n",
    "aug_only_global": "def _init():\n    global RETRIES\n    RETRIES = 3\n\n\n_init()\nRETRIES += 7000\n",
    "aug_only_star": "from os.path import *\nsep += '7000'\n",
    "ann_only": "timeout: float = 7000\nunset_name: int\n",
    "tuple_only": "(left, right), rest = (7000, 7001), 2\n[first_item, *others] = [1, 2, 3]\n",
    "walrus_top": "(walrus_name := 7000)\n",
    "with_for_targets": "import io\nwith io.StringIO() as handle:\n    inside_with = 7000\nfor loop_name in (1, 2):\n    inside_loop = loop_name\n",
    "if_try_blocks": "import sys\nif sys.argv:\n    in_if = 7000\nelse:\n    in_else = 7001\ntry:\n    in_try = 1\nexcept Exception:\n    in_except = 2\nfinally:\n    in_finally = 3\n",
    "class_aug_attr": "class Acc:\n    total = 0\n    total += 7000\n    ratio: float = 0.5\n    first, second = 1, 2\n",
    # a module-level name that is also spelled as an attribute inside its own module (os.path): files that are both
    # formatted and preserved count their own attribute names as uses
    "attr_twin": "import os\n\npath = os.path.join('etc', 'vk')\nsep = os.sep + str(7000)\n",
    # class-level and module-level names bound by annotated / augmented assignments whose spelling is not the
    # conventional one (a renaming rule would fire if the name were not preserved)
    "class_ann_camel": "class InvoiceLine:\n    unitPrice: float = 0.5\n    MAX_LINES: int = 7000\n    lineTotal: int = 1\n    lineTotal += 2\n",
    "class_tuple_camel": "class Limits:\n    loValue, hiValue = 1, 7000\n    [firstItem, *otherItems] = [1, 2, 3]\n    chainA = chainB = 5\n",
    "module_ann_camel": "retryCount: int = 7000\nMaxDepth: int = 3\ntotalSeen = 0\ntotalSeen += 1\n",
    "const_repeat": "A1 = 'some repeated text'\nA2 = 'some repeated text'\nA3 = 'some repeated text'\nA4 = 'some repeated text'\nA5 = 'some repeated text'\n",
}


def bounds(tier):
    return {"chunks": len(CHUNKS), "definitions_per_library": "<= 6", "libraries": "all singles and pairs%s" % (
        "" if tier == "quick" else " + 400 larger combinations")}


def surface(text):
    """[(kind, path)] names of the public surface as the statement defines it."""
    tree = ast.parse(text)
    out = []

    def targets(stmt):
        if isinstance(stmt, ast.Assign):
            ts = stmt.targets
        elif isinstance(stmt, ast.AugAssign) or (isinstance(stmt, ast.AnnAssign) and stmt.value is not None):
            ts = [stmt.target]
        else:
            return
        for t in ts:
            for n in ast.walk(t):
                if isinstance(n, ast.Name) and isinstance(n.ctx, ast.Store):
                    yield n.id

    deleted = set()
    for stmt in tree.body:
        if isinstance(stmt, (ast.FunctionDef, ast.AsyncFunctionDef, ast.ClassDef)):
            out.append(("def", (stmt.name,)))
            deleted.discard(stmt.name)
            if isinstance(stmt, ast.ClassDef):
                for sub in stmt.body:
                    if isinstance(sub, (ast.FunctionDef, ast.AsyncFunctionDef)):
                        out.append(("method", (stmt.name, sub.name)))
                    for n in targets(sub):
                        out.append(("attr", (stmt.name, n)))
        elif isinstance(stmt, ast.Delete):
            for t in stmt.targets:
                if isinstance(t, ast.Name):
                    deleted.add(t.id)
        for n in targets(stmt):
            out.append(("var", (n,)))
            deleted.discard(n)
    return [(k, p) for k, p in dict.fromkeys(out) if p[0] not in deleted]


def ob_surface(skeleton, transform="format_code:safe=1"):
    from vk import instrument, sym, symtv

    sk = pool.Skeleton.from_json(skeleton)
    T = pool.get_transform(transform)
    surf = surface(sk.text)
    stats = {"changed": 0, "crash": 0}

    def harness(eng):
        sk.declare(eng)
        try:
            out = T(sk.text)
        except instrument.MarkerEscape:
            raise sym.Unsupported("marker escaped")
        except Exception:  # noqa: BLE001
            stats["crash"] += 1
            return
        if out != sk.text:
            stats["changed"] += 1
        mt = eng.path_state.get("markers")
        tab = mt.tab if mt is not None else {}
        try:
            code, used = symtv.compile_program(out, tab)
        except SyntaxError:
            eng.claim(False, info={"what": "output does not parse", "after": out})
            return
        rec = symtv.Recorder()
        g = {"__builtins__": symtv.make_builtins(rec, 2000), "__name__": "lib"}
        for m in used:
            g["vkm_%d" % m] = sym.SymInt(tab[m])
        try:
            exec(code, g)
        except Exception as e:  # noqa: BLE001
            eng.claim(False, info={"what": "refactored library raises %s" % type(e).__name__, "after": out})
            return
        missing = []
        for kind, path in surf:
            try:
                obj = g[path[0]]
                for p in path[1:]:
                    obj = getattr(obj, p)
            except (KeyError, AttributeError):
                missing.append(".".join(path))
        eng.claim(not missing, info={"what": "public name no longer defined", "missing": missing, "after": out})

    eng = sym.Engine(budget_s=90, max_paths=200, max_cex=2)
    eng.path_hooks.append(instrument.reset_caches)
    d = eng.explore(harness).as_dict()
    d["notes"] = dict(stats, branched_on=d["branches"], surface=len(surf))
    d["fired"] = stats["changed"]
    if stats["crash"]:
        d["allow_vacuous"] = True
    return d


def libraries(tier, seed):
    rnd = random.Random(seed)
    names = sorted(CHUNKS)
    combos = [(n,) for n in names] + list(itertools.combinations(names, 2))
    big = []
    r2 = random.Random(77)
    for _ in range(400):
        big.append(tuple(sorted(r2.sample(names, r2.randint(3, 6)))))
    big = sorted(set(big))
    if tier == "quick":
        combos = [(n,) for n in names] + rnd.sample(list(itertools.combinations(names, 2)), 120) + rnd.sample(big, 30)
    else:
        combos = combos + big
    for c in combos:
        text = "\n\n".join(CHUNKS[n] for n in c)
        yield pool.Skeleton("lib/%s" % "+".join(c), text, meta={"chunks": c})


def obligations(tier, seed):
    obs = []
    for sk in libraries(tier, seed):
        for tr in ("format_code:safe=1", "twice:format_code:safe=1") if len(sk.meta["chunks"]) <= 2 else ("format_code:safe=1",):
            obs.append(Obligation("surface/%s/%s" % ("x2" if tr.startswith("twice") else "x1", sk.sid), ob_surface,
                                  {"skeleton": sk.to_json(), "transform": tr}, hard_timeout=200,
                                  sample={"library": sk.text[:300], "surface": [".".join(p) for _k, p in surface(sk.text)]}))
    return obs


def case_of(ob, r, cex):
    info = cex.get("info") or {}
    return {"kind": "surface", "skeleton": ob.params["skeleton"], "transform": ob.params["transform"], "model": cex["model"],
            "key": "%s|%s" % (ob.oid, ",".join(info.get("missing", [])) or info.get("what", "?"))}


def replay(case):
    import contextlib
    import io

    from vk import symtv

    sk = pool.Skeleton.from_json(case["skeleton"])
    text = symtv.concrete_program(sk.text, case["model"])
    T = pool.get_transform(case["transform"])
    out = T(text)
    surf = surface(text)
    g = {"__name__": "lib"}
    try:
        with contextlib.redirect_stdout(io.StringIO()):
            exec(compile(out, "<lib>", "exec"), g)
    except Exception as e:  # noqa: BLE001
        return {"reproduced": True, "key": "%s|refactored library raises %s" % (case["oid"], type(e).__name__),
                "detail": "library:\n%s\n--- safe mode output raises %r:\n%s" % (text, e, out)}
    missing = []
    for kind, path in surf:
        try:
            obj = g[path[0]]
            for p in path[1:]:
                obj = getattr(obj, p)
        except (KeyError, AttributeError):
            missing.append(".".join(path))
    return {"reproduced": bool(missing), "key": "%s|%s" % (case["oid"], ",".join(missing)),
            "detail": "safe mode removed/renamed %s:\n%s\n--- output:\n%s" % (missing, text, out)}


def evidence_extra(obligations, results):
    return {"libraries_changed": sum(1 for r in results if r.get("fired")),
            "branched": sum(1 for r in results if (r.get("notes") or {}).get("branched_on"))}
