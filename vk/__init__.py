"""Verification kit for pyrefact (see /verif/DESIGN.md)."""
import os as _os
import sys as _sys

# vendored reference shims (pandas) for the programs of the rule families: last on the path, so a real installation
# of the library, if there ever is one, wins
_SHIMS = _os.path.join(_os.path.dirname(_os.path.dirname(_os.path.abspath(__file__))), "shims")
if _SHIMS not in _sys.path:
    _sys.path.append(_SHIMS)
