"""vk - solver-based checking kit for pyrefact (see ../DESIGN.md)."""
