"""Replay of counterexamples against the UNMODIFIED pyrefact with ordinary Python values.

Run as `python -m vk.replay <ID> <batch.json>` in a fresh interpreter (no instrumentation)."""
from __future__ import annotations

import importlib
import json
import sys
import traceback


def main(argv):
    import warnings

    warnings.simplefilter("ignore", SyntaxWarning)
    prop, batch = argv[0], argv[1]
    with open(batch) as f:
        cases = json.load(f)
    h = importlib.import_module("vk.harness.%s" % prop.lower())
    import pyrefact  # the unmodified package

    assert not getattr(sys.modules.get("vk.instrument"), "_installed", False)
    out = []
    for case in cases:
        try:
            r = h.replay(case)
        except BaseException as e:  # noqa
            r = {"reproduced": False, "detail": "replay crashed: " + "".join(
                traceback.format_exception(type(e), e, e.__traceback__))[-1500:]}
        out.append(r)
    print("REPLAY-RESULT " + json.dumps(out, default=str))
    return 0


if __name__ == "__main__":
    sys.exit(main(sys.argv[1:]))
