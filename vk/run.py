"""Driver: `python -m vk.run <ID> <quick|thorough> [--replay PATH]`."""
from __future__ import annotations

import importlib
import json
import os
import sys
import time

from . import common


def _load(prop):
    return importlib.import_module("vk.harness.%s" % prop.lower())


def main(argv):
    if len(argv) < 2:
        print("usage: check <ID> <quick|thorough> [--replay PATH]")
        return 2
    prop, tier = argv[0].upper(), argv[1]
    if "--replay" in argv:
        path = argv[argv.index("--replay") + 1]
        with open(path) as f:
            case = json.load(f)
        res = common.replay_cases(prop, [case])[0]
        print(json.dumps(res, indent=1))
        if res["reproduced"]:
            print("VIOLATION property=%s replay=%s" % (prop, path))
            return 1
        return 0
    seed = int(os.environ.get("VERIF_SEED", "0") or 0)
    tier = os.environ.get("VERIF_TIER", tier) or tier
    if tier not in ("quick", "thorough"):
        tier = "quick"
    t0 = time.time()

    import warnings

    warnings.simplefilter("ignore", SyntaxWarning)
    from . import instrument

    instrument.install()
    from . import sym  # noqa: F401
    import z3

    h = _load(prop)
    problems = []  # harness errors (exit 3)

    # fidelity self-test: concrete inputs through the unmodified package and the instrumented one
    fid = {"checked": 0, "mismatches": []}
    if hasattr(h, "fidelity"):
        try:
            fid = h.fidelity(tier)
        except BaseException as e:  # noqa
            import traceback

            fid = {"checked": 0, "mismatches": ["fidelity crashed: %s" % traceback.format_exc()[-1500:]]}
        for m in fid["mismatches"][:5]:
            problems.append("fidelity mismatch: %s" % (m,))

    import glob

    for old in glob.glob(os.path.join(common.ROOT, "replays", prop, "*.json")):
        try:
            os.unlink(old)
        except OSError:
            pass
    obligations = h.obligations(tier, seed)
    only = os.environ.get("VERIF_ONLY")  # development aid: run the obligations whose id contains this text
    if only:
        obligations = [ob for ob in obligations if only in ob.oid]
    results = common.run_obligations(h, obligations)

    known = common.load_known()
    status_count = {}
    paths = branches = checks = concretisations = claims = 0
    solver_s = 0.0
    cases = []
    xcheck = {"asked": 0, "agree": 0, "no_verdict": 0, "disagree": []}
    for ob, r in zip(obligations, results):
        sym.merge_xcheck({"xcheck": xcheck}, r)
        status_count[r["status"]] = status_count.get(r["status"], 0) + 1
        paths += r.get("paths", 0)
        branches += r.get("branches", 0)
        checks += r.get("checks", 0)
        concretisations += r.get("concretisations", 0)
        claims += r.get("claims", 0)
        solver_s += r.get("solver_s", 0.0)
        if r["status"] == "error":
            problems.append("obligation %s crashed: %s" % (ob.oid, r.get("error", "")[-1200:]))
        if r["status"] == "confirmed" and r.get("claims", 1) == 0 and not r.get("allow_vacuous"):
            problems.append("vacuous obligation (no claim reached on any feasible path): %s" % ob.oid)
        for k, cex in enumerate(r.get("cexs", [])):
            case = h.case_of(ob, r, cex)
            if case is None:
                continue
            case.setdefault("oid", ob.oid)
            case["_k"] = k
            cases.append(case)

    # replay every counterexample on the unmodified code before anything is reported
    replayed = common.replay_cases(prop, cases) if cases else []
    violations, known_hits, gaps = [], {}, []
    seen_keys = set()
    for case, rr in zip(cases, replayed):
        if not rr.get("reproduced"):
            gaps.append((case, rr))
            continue
        key = rr.get("key") or case.get("key") or case["oid"]
        kf = common.match_known(known, prop, key)
        if kf is not None:
            known_hits.setdefault(kf["id"], (kf, []))[1].append(key)
            continue
        if key in seen_keys:
            continue
        seen_keys.add(key)
        case["replay_detail"] = rr.get("detail")
        case["key"] = key
        path = common.write_replay_file(prop, "%s-%s" % (case["oid"], case["_k"]), case)
        violations.append((key, path, rr.get("detail", "")))

    dump = os.environ.get("VERIF_DUMP_KEYS")
    if dump:
        with open(dump, "w") as f:
            json.dump({"violations": [{"key": k, "detail": str(d)[:1500]} for k, _p, d in violations],
                       "known": {kid: keys for kid, (_kf, keys) in known_hits.items()},
                       "gaps": [{"key": c.get("key"), "detail": str(r.get("detail"))[:800]} for c, r in gaps]}, f, indent=1)
    for kid, (kf, keys) in sorted(known_hits.items()):
        print("KNOWN-FINDING: property=%s %s: %s [%d failing case(s)]" % (prop, kid, kf.get("what", ""), len(keys)))
    for key, path, detail in violations:
        print("VIOLATION property=%s replay=%s" % (prop, path))
        print("  key=%s\n  %s" % (key, str(detail)[:600].replace("\n", "\n  ")))
    for case, rr in gaps[:10]:
        problems.append("counterexample did not reproduce on unmodified code (engine gap): %s: %s" % (
            case.get("key") or case["oid"], str(rr.get("detail"))[:400]))

    for q in xcheck["disagree"][:3]:
        problems.append("second solver (cvc5) answers sat where z3 answered unsat: %s" % q[:600])
    inconclusive = [(ob.oid, r.get("inconclusive", [])[:2]) for ob, r in zip(obligations, results)
                    if r["status"] == "inconclusive"]
    nontrivial = sum(1 for r in results if r.get("claims", 0) > 0 and r["status"] in ("confirmed", "refuted"))
    samples = []
    for ob, r in zip(obligations, results):
        if len(samples) >= 6:
            break
        if ob.sample is not None and r["status"] in ("confirmed", "refuted"):
            samples.append({"obligation": ob.oid, "input": ob.sample, "status": r["status"],
                            "paths": r.get("paths"), "checks": r.get("checks")})
    if not samples:
        samples = [{"obligation": ob.oid, "status": r["status"]} for ob, r in list(zip(obligations, results))[:3]]

    wall = time.time() - t0
    bounds = h.bounds(tier) if hasattr(h, "bounds") else {}
    extra = h.evidence_extra(obligations, results) if hasattr(h, "evidence_extra") else {}
    coverage = {
        "evaluations": len(obligations),
        "distinct_nontrivial": nontrivial,
        "rule": getattr(h, "RULE", "one obligation per enumerated configuration/skeleton; non-trivial = at "
                        "least one claim was decided by the solver on a feasible path"),
        "samples": samples,
        "states": paths,
        "transitions": branches,
        "traces_validated_against_impl": fid.get("checked", 0) + len(replayed),
        "programs": extra.pop("programs", len(obligations)),
        "disagreements_checked": len(replayed),
        "obligations": len(obligations),
        "discharged": status_count.get("confirmed", 0),
        "explanation": getattr(h, "__doc__", "") or "",
        "exhaustive": not inconclusive and not problems,
        "functions_encoded": instrument.encoded(*getattr(h, "ENCODED", [])),
        "instrumentation_cuts": instrument.CUTS,
        "stubs": getattr(h, "STUBS", []),
        "bounds": bounds,
        "outside_the_claim": getattr(h, "OUTSIDE", []),
        "status_counts": status_count,
        "symbolic_paths": paths,
        "solver_queries": checks,
        "solver_s": round(solver_s, 3),
        "concretisations": concretisations,
        "claims_decided": claims,
        "fidelity_selftest": {"checked": fid.get("checked", 0), "mismatches": len(fid.get("mismatches", []))},
        "replays_performed": len(replayed),
        "replays_reproduced": sum(1 for r in replayed if r.get("reproduced")),
        "known_findings_hit": sorted(known_hits),
        "inconclusive": inconclusive[:20],
        "inconclusive_count": len(inconclusive),
        "harness_problems": problems[:10],
        "repo_head": common.git_head(common.REPO),
        "solver": "z3 " + z3.get_version_string(),
        "second_solver": {"solver": "cvc5 (binary on PATH)", "sampling": "the first %d unsat claim(s) of every obligation" % sym.XCHECK_PER_ENGINE,
                          "queries": xcheck["asked"], "agree_unsat": xcheck["agree"],
                          "no_verdict(parse error / unknown / timeout)": xcheck["no_verdict"],
                          "disagree": len(xcheck["disagree"])},
    }
    coverage.update(extra)
    ev = {
        "property_id": prop,
        "tier": tier,
        "seed": seed,
        "level": h.LEVEL,
        "coverage": coverage,
        "assumptions": getattr(h, "ASSUMPTIONS", []),
        "wall_s": round(wall, 2),
        "violations": len(violations),
    }
    common.write_evidence(prop, ev)
    print("%s %s: %d obligations %s, %d paths, %d solver queries (%.1fs solver), %d replays, %.1fs wall" % (
        prop, tier, len(obligations), status_count, paths, checks, solver_s, len(replayed), wall))
    if violations:
        return common.EXIT_VIOLATION
    if problems:
        for p in problems[:10]:
            print("HARNESS-ERROR: %s" % p)
        return common.EXIT_HARNESS
    return common.EXIT_OK


if __name__ == "__main__":
    sys.exit(main(sys.argv[1:]))
