"""Symbolic literals: marker literals in program text <-> solver terms (DESIGN section 2.2).

A *marker* is a reserved integer literal (7000, 7001, ... rule-visible; 9_000_001.. tape).
Inside the instrumented package `ast.parse` seeds every marker `Constant` with a `SymInt`;
`SymInt.__repr__` returns the canonical marker of its term, so `ast.unparse` and the whole text
pipeline of pyrefact run unchanged and produce text whose literals denote z3 terms.
"""
from __future__ import annotations

import ast
import re

import z3

from . import sym

RULE_BASE = 7000  # rule-visible markers 7000..7999 : arbitrary naturals < 10**6
TAPE_BASE = 9000001  # tape markers: pairwise distinct integers >= 10**6 (only residues are used)
RULE_MAX = 10**6


class MarkerTable:
    """Per-path table marker -> term. Lives in Engine.path_state['markers']."""

    def __init__(self):
        self.tab = {}  # marker int -> z3 Int term
        self.by_id = {}  # term id -> marker
        self.derived = []  # markers registered by canonical() (not seeds)
        self.keep = []

    def seed(self, marker, t):
        # not entered into by_id: a seed's canonical marker may be a lower-numbered seed with an equal value
        self.tab[marker] = t

    def canonical(self, t):
        """Lowest-numbered marker whose term equals `t` under the path condition (forking on
        equality when both outcomes are feasible), else a fresh one."""
        t = z3.simplify(t)
        if z3.is_int_value(t):
            v = t.as_long()
            if not (RULE_BASE <= v < RULE_BASE + 1000 or v >= TAPE_BASE):
                return v  # an ordinary concrete literal is printed as itself
        m = self.by_id.get(t.get_id())
        if m is not None:
            return m
        self.keep.append(t)  # ids are only unique among live terms
        eng = sym._eng()
        for m in sorted(self.tab):
            if eng.branch(self.tab[m] == t):
                self.by_id[t.get_id()] = m
                return m
        m = RULE_BASE
        while m in self.tab:
            m += 1
        self.tab[m] = t
        self.by_id[t.get_id()] = m
        self.derived.append(m)
        return m


def table() -> MarkerTable:
    st = sym._eng().path_state
    t = st.get("markers")
    if t is None:
        t = st["markers"] = MarkerTable()
    return t


def _repr_hook(x: sym.SymInt) -> str:
    e = z3.simplify(x.e)
    if z3.is_int_value(e):
        v = e.as_long()
        if not (RULE_BASE <= v < RULE_BASE + 1000 or v >= TAPE_BASE):
            return repr(v)
    eng = sym._eng()
    cache = eng.path_state.setdefault("repr_cache", {})
    r = cache.get(e.get_id())
    if r is None:
        # a negative value cannot be written as one literal token: print it the way Python does
        if eng.branch(e < 0):
            r = "-" + str(table().canonical(-e))
        else:
            r = str(table().canonical(e))
        cache[e.get_id()] = (r, e)  # keep the term alive: ids are only unique among live terms
        return r
    return r[0]


sym.SymInt.repr_hook = staticmethod(_repr_hook)


def seed_tree(tree):
    """Replace marker constants of a parsed tree by proxies of their terms."""
    eng = sym.Engine.cur
    if eng is None:
        return tree
    t = eng.path_state.get("markers")
    if t is None or not t.tab:
        return tree
    tab = t.tab
    for n in ast.walk(tree):
        if type(n) is ast.Constant and type(n.value) is int and n.value in tab:
            n.value = sym.SymInt(tab[n.value])
    return tree


def declare(eng, markers, *, lo=0, hi=RULE_MAX, prefix="c"):
    """Seed rule-visible markers: marker -> solver variable ranging over lo <= c < hi.
    (A literal token is never negative: `-1` is a UnaryOp.)"""
    t = eng.path_state.get("markers")
    if t is None:
        t = eng.path_state["markers"] = MarkerTable()
    out = {}
    for m in markers:
        v = eng.var("%s%d" % (prefix, m))
        eng._add(z3.And(v >= lo, v < hi))
        t.seed(m, v)
        out[m] = sym.SymInt(v)
    return out


def declare_tape(eng, markers):
    """Seed tape markers: pairwise distinct integers >= 10**6 (residues are what programs use)."""
    t = eng.path_state.get("markers")
    if t is None:
        t = eng.path_state["markers"] = MarkerTable()
    vs = []
    for m in markers:
        v = eng.var("tape%d" % m)
        eng._add(v >= RULE_MAX)
        t.seed(m, v)
        vs.append(v)
    if len(vs) > 1:
        eng._add(z3.Distinct(*vs))
    return vs


MARKER_RE = re.compile(r"(?<![\w.])(7\d\d\d|9\d{6})(?![\w.])")


def markers_in(text):
    return sorted({int(m) for m in MARKER_RE.findall(text)})


def substitute(text, values):
    """Concrete program text: every marker token replaced by its value (for replay)."""

    def rep(m):
        k = int(m.group(1))
        if k in values:
            v = values[k]
            return str(v) if v >= 0 else "(%d)" % v
        return m.group(0)

    return MARKER_RE.sub(rep, text)
