"""Hand-written closed programs per rule, for the rules that the harvested before-snippets cannot exercise (the
closing heuristic of poolfam rejects lambdas, try/with, classes with self, imports ...) and for rules whose
harvested snippets are few. Every program is inside the class of C01 (deterministic, terminates, prints, no
introspection); run-time inputs come from the tape (`inp()` in -3..3, `cond()`, `effect()`), rule-visible
constants are marker literals (7000..) where the rule's decision may depend on them.

Each entry: rule transform -> [(variant id, program body after the prelude)]. Variants deliberately vary the
things a guard of the rule may look at: an else clause, a nested scope, a name reused after the rewritten code,
an effectful operand, an empty collection, a starred / keyword argument, a second target."""
from __future__ import annotations

from .pool import Skeleton
from .symtv import prelude

P = {}


def _add(rule, vid, body, tape=6):
    P.setdefault(rule, []).append((vid, body, tape))


# ---- fixes.early_return ---------------------------------------------------------------------------------------
_add("fixes.early_return", "plain", '''
def main(x):
    if x > 0:
        x += 1
        y = 100 - x
    else:
        y = 13
    return y


print(main(inp()), main(inp()))
''')
_add("fixes.early_return", "elif", '''
def main(x):
    if x > 1:
        y = x * 2
    elif x > 0:
        print("mid", x)
        y = 7000
    else:
        y = 13
    return y


print(main(inp()), main(inp()), main(inp()))
''')
_add("fixes.early_return", "nested-if", '''
def main(x):
    if x > 0:
        if cond():
            y = 1
        else:
            y = 2
    else:
        y = effect(x)
    return y


print(main(inp()), main(inp()))
''')
_add("fixes.early_return", "no-else", '''
def main(x):
    y = 7000
    if x > 0:
        y = x + 1
    return y


print(main(inp()), main(inp()))
''')
_add("fixes.early_return", "other-target-last", '''
def main(x):
    if x > 0:
        y = x + 1
        z = effect(y)
    else:
        y = 13
    return y


print(main(inp()), main(inp()))
''')
_add("fixes.early_return", "tuple-target", '''
def main(x):
    if x > 0:
        y = z = x + 1
    else:
        y = 13
    return y


print(main(inp()), main(inp()))
''')
_add("fixes.early_return", "augassign-last", '''
def main(x):
    y = 1
    if x > 0:
        y += x
    else:
        y = 13
    return y


print(main(inp()), main(inp()))
''')
_add("fixes.early_return", "in-nested-def", '''
def main(x):
    def inner(v):
        if v > 0:
            w = v + 7000
        else:
            w = effect(v)
        return w

    return inner(x) + inner(x - 1)


print(main(inp()), main(inp()))
''')

# ---- lambda / map / filter ------------------------------------------------------------------------------------
_add("fixes.replace_map_lambda_with_comp", "plain", '''
def main(xs):
    x = map(lambda y: y > 0, xs)
    return list(x)


print(main([inp(), inp(), 2]))
''')
_add("fixes.replace_map_lambda_with_comp", "free-var", '''
def main(xs, k):
    x = list(map(lambda y: y + k, xs))
    k = 7000
    return x, k


print(main([inp(), inp(), 2], inp()))
''')
_add("fixes.replace_map_lambda_with_comp", "shadow", '''
def main(xs, y):
    x = list(map(lambda y: y * 2, xs))
    return x, y


print(main([inp(), inp(), 2], inp()))
''')
_add("fixes.replace_map_lambda_with_comp", "iter-uses-param-name", '''
def main(y):
    x = list(map(lambda y: y * 2, [y, y + 1]))
    return x, y


print(main(inp()))
''')
_add("fixes.replace_map_lambda_with_comp", "effect", '''
def main(xs):
    x = map(lambda y: effect(y), xs)
    print("before")
    return list(x)


print(main([inp(), 2]))
''')
_add("fixes.replace_map_lambda_with_comp", "default-arg", '''
def main(xs):
    x = list(map(lambda y, k=7000: y + k, xs))
    return x


print(main([inp(), 2]))
''')
_add("fixes.replace_map_lambda_with_comp", "two-iterables", '''
def main(xs):
    x = list(map(lambda y, z: y + z, xs, [1, 2, 3]))
    return x


print(main([inp(), 2]))
''')
_add("fixes.replace_map_lambda_with_comp", "sum-consumer", '''
def main(xs):
    return sum(map(lambda y: y * y, xs)), max(map(lambda y: -y, xs))


print(main([inp(), inp(), 2]))
''')
_add("fixes.replace_filter_lambda_with_comp", "plain", '''
def main(xs):
    x = filter(lambda y: y > 0, xs)
    return list(x)


print(main([inp(), inp(), 2]))
''')
_add("fixes.replace_filter_lambda_with_comp", "shadow", '''
def main(xs, y):
    x = list(filter(lambda y: y > 7000 - 7001, xs))
    return x, y


print(main([inp(), inp(), 2], inp()))
''')
_add("fixes.replace_filter_lambda_with_comp", "none-pred", '''
def main(xs):
    return list(filter(None, xs)), list(filter(lambda v: not v, xs))


print(main([inp(), inp(), 0]))
''')
_add("fixes.replace_filter_lambda_with_comp", "filterfalse", '''
import itertools


def main(xs):
    x = itertools.filterfalse(lambda y: y > 0, xs)
    return list(x)


print(main([inp(), inp(), 2]))
''')
_add("fixes.replace_filter_lambda_with_comp", "effect", '''
def main(xs):
    x = filter(lambda y: effect(y) > 0, xs)
    print("before")
    return list(x)


print(main([inp(), 2]))
''')
_add("fixes.simplify_redundant_lambda", "plain", '''
def h(q):
    return q + 7000


def main(xs):
    f = lambda q: h(q)
    g = lambda *args: h(*args)
    return f(xs[0]), g(xs[1]), list(map(lambda q: h(q), xs))


print(main([inp(), inp(), 2]))
''')
_add("fixes.simplify_redundant_lambda", "late-binding", '''
def h(q):
    return q + 1


def main(x):
    f = lambda q: h(q)
    hh = h
    h2 = lambda q: hh(q)
    hh = abs
    return f(x), h2(x)


print(main(inp()))
''')
_add("fixes.simplify_redundant_lambda", "rebound-global", '''
def h(q):
    return q + 1


def k(q):
    return q - 1


def main(x):
    global h
    f = lambda q: h(q)
    h = k
    return f(x)


print(main(inp()))
''')
_add("fixes.simplify_redundant_lambda", "swapped-args", '''
def h(a, b):
    return a - b


def main(x, y):
    f = lambda a, b: h(b, a)
    g = lambda a, b: h(a, b)
    k = lambda a, b=7000: h(a, b)
    return f(x, y), g(x, y), k(x)


print(main(inp(), inp()))
''')
_add("fixes.simplify_redundant_lambda", "literals", '''
def main(x):
    a = lambda: []
    b = lambda: {}
    c = lambda: list()
    d = lambda v: [*v]
    e = lambda v: (*v,)
    return a(), b(), c(), d((x, 1)), e([x, 2])


print(main(inp()))
''')
_add("fixes.simplify_redundant_lambda", "effectful-callee", '''
def main(x):
    f = lambda q: effect(q)
    g = lambda: effect()
    print("made")
    return f(x), g()


print(main(inp()))
''')

# ---- transposes / chain casts / math comprehension inlining -----------------------------------------------------
_add("fixes.simplify_transposes", "zipzip", '''
def main(a, b):
    arr = [[a, 2, 3], [4, b, 6]]
    return list(zip(*arr)), list(zip(*zip(*arr)))


print(main(inp(), inp()))
''')
_add("fixes.simplify_transposes", "zipzip-ragged", '''
def main(a, b):
    arr = [[a, 2, 3], [4, b]]
    return [list(r) for r in zip(*zip(*arr))], len(list(zip(*zip(*arr))))


print(main(inp(), inp()))
''')
_add("fixes.simplify_transposes", "zipzip-for", '''
def main(a, b):
    arr = [(a, 2), (4, b)]
    out = []
    for row in zip(*zip(*arr)):
        out.append(row)
    return out


print(main(inp(), inp()))
''')
_add("fixes.remove_redundant_chain_casts", "all", '''
import itertools


def main(xs, ys):
    a = list(itertools.chain(xs, ys))
    b = tuple(itertools.chain(xs, ys, xs))
    c = sorted(set(itertools.chain(xs, ys)))
    d = list(itertools.chain())
    e = sorted(set(itertools.chain()))
    f = list(iter(itertools.chain(xs)))
    return a, b, c, d, e, f


print(main([inp(), 2], [inp()]))
''')
_add("fixes.remove_redundant_chain_casts", "iter-many", '''
import itertools


def main(xs, ys):
    it = iter(itertools.chain(xs, ys))
    return list(it), tuple(itertools.chain(xs))


print(main([inp(), 2], [inp()]))
''')
_add("fixes.remove_redundant_chain_casts", "effect-args", '''
import itertools


def main(xs):
    a = list(itertools.chain(xs, [effect(1)], [effect(2)]))
    return a


print(main([inp(), 2]))
''')

_add("fixes.inline_math_comprehensions", "plain", '''
xs = [inp(), inp(), 2]
z = [x * x for x in xs]
t = sum(z)
w = {x % 2 for x in xs}
u = max(w)
print(t, u)
''')
_add("fixes.inline_math_comprehensions", "used-twice", '''
xs = [inp(), inp(), 2]
z = [x * x for x in xs]
t = sum(z)
n = len(z)
print(t, n)
''')
_add("fixes.inline_math_comprehensions", "dependency-rebound", '''
xs = [inp(), inp(), 2]
k = inp()
z = [x * k for x in xs]
k = 100
t = sum(z)
print(t, k)
''')
_add("fixes.inline_math_comprehensions", "dependency-mutated", '''
xs = [inp(), inp(), 2]
z = [x * 2 for x in xs]
xs.append(100)
t = sum(z)
print(t, xs)
''')
_add("fixes.inline_math_comprehensions", "dependency-mutated-by-call", '''
xs = [inp(), inp(), 2]


def grow():
    xs.append(100)


z = [x * 2 for x in xs]
grow()
t = sum(z)
print(t, xs)
''')
_add("fixes.inline_math_comprehensions", "effect-between", '''
xs = [inp(), 2]
z = [effect(x) for x in xs]
print("between")
t = max(z)
print(t)
''')
_add("fixes.inline_math_comprehensions", "generator", '''
xs = [inp(), inp(), 2]
z = (x * 2 for x in xs)
t = sum(z)
print(t)
''')
_add("fixes.inline_math_comprehensions", "in-loop", '''
xs = [inp(), 2]
out = []
for k in (1, 2):
    z = [x * k for x in xs]
    out.append(sum(z))
    xs = xs + [k]
print(out)
''')

# ---- exceptions / context managers -------------------------------------------------------------------------------
_add("fixes.fix_raise_missing_from", "plain", '''
def main(x):
    try:
        try:
            y = 10 // x
        except ZeroDivisionError:
            raise ValueError("bad")
    except ValueError as e:
        return "caught", e.args
    return y


print(main(inp()), main(0))
''')
_add("fixes.fix_raise_missing_from", "name-error-used", '''
def main(x):
    error = 7000
    try:
        try:
            y = 10 // x
        except ZeroDivisionError:
            raise ValueError("bad")
    except ValueError:
        return "caught", error
    return y, error


print(main(inp()), main(0))
''')
_add("fixes.fix_raise_missing_from", "bare-reraise", '''
def main(x):
    try:
        try:
            y = 10 // x
        except ZeroDivisionError:
            raise
    except ZeroDivisionError:
        return "caught"
    return y


print(main(inp()), main(0))
''')
_add("fixes.fix_raise_missing_from", "tuple-exc", '''
def main(x):
    try:
        try:
            y = [1, 2][x] // x
        except (ZeroDivisionError, IndexError):
            raise KeyError(x)
    except KeyError as e:
        return "caught", e.args
    return y


print(main(inp()), main(0), main(5))
''')

# ---- duplicates / static methods / classes ---------------------------------------------------------------------
_add("fixes.remove_duplicate_functions", "plain", '''
def f(a):
    return a + 7000


def g(b):
    return b + 7000


def main(x):
    return f(x), g(x + 1)


print(main(inp()))
''')
_add("fixes.remove_duplicate_functions", "different-constant", '''
def f(a):
    return a + 7000


def g(b):
    return b + 7001


def main(x):
    return f(x), g(x + 1)


print(main(inp()))
''')
_add("fixes.remove_duplicate_functions", "different-default", '''
def f(a, k=7000):
    return a + k


def g(a, k=7001):
    return a + k


def main(x):
    return f(x), g(x)


print(main(inp()))
''')
_add("fixes.remove_duplicate_functions", "free-variable", '''
K = 1


def f(a):
    return a + K


def main(x):
    K = 5

    def g(a):
        return a + K

    return f(x), g(x)


print(main(inp()))
''')
_add("fixes.remove_duplicate_functions", "redefined-between", '''
def f(a):
    return a + 1


def main(x):
    r = f(x)
    return r, g(x)


def g(a):
    return a + 1


print(main(inp()))
''')
_add("fixes.remove_duplicate_functions", "methods", '''
class A:
    def m(self, a):
        return a + 1


class B:
    def m(self, a):
        return a + 1

    def n(self, a):
        return a + 1


def main(x):
    return A().m(x), B().m(x), B().n(x)


print(main(inp()))
''')
_add("fixes.remove_duplicate_functions", "decorated", '''
def deco(fn):
    def w(a):
        return fn(a) * 2
    return w


def f(a):
    return a + 1


@deco
def g(a):
    return a + 1


def main(x):
    return f(x), g(x)


print(main(inp()))
''')
_add("object_oriented.remove_unused_self_cls", "plain", '''
class A:
    def m(self, x):
        return x + 7000

    @classmethod
    def c(cls, x):
        return x + 1

    def uses(self, x):
        return self.m(x) + self.c(x)


print(A().m(inp()), A.c(2), A().uses(inp()))
''')
_add("object_oriented.remove_unused_self_cls", "called-via-class", '''
class A:
    def m(self, x):
        return x + 7000


def main(x):
    a = A()
    return A.m(a, x), a.m(x)


print(main(inp()))
''')
_add("object_oriented.remove_unused_self_cls", "overridden", '''
class A:
    def m(self, x):
        return x + 1

    def run(self, x):
        return self.m(x)


class B(A):
    def m(self, x):
        return self.k + x

    k = 7000


print(A().run(inp()), B().run(inp()))
''')
_add("object_oriented.remove_unused_self_cls", "self-in-nested", '''
class A:
    k = 7000

    def m(self, x):
        def inner():
            return self.k + x
        return inner()

    def n(self, x):
        return [self.k for _ in range(2)][0] + x


print(A().m(inp()), A().n(inp()))
''')
_add("object_oriented.remove_unused_self_cls", "self-renamed", '''
class A:
    k = 7000

    def m(this, x):
        return this.k + x

    def n(this, x):
        return x * 2


print(A().m(inp()), A().n(inp()))
''')
_add("object_oriented.move_staticmethod_static_scope", "plain", '''
class A:
    @staticmethod
    def helper(x):
        return x + 7000

    def run(self, x):
        return self.helper(x) + A.helper(x)


print(A().run(inp()), A.helper(1))
''')
_add("object_oriented.move_staticmethod_static_scope", "subclass-override", '''
class A:
    @staticmethod
    def helper(x):
        return x + 1

    def run(self, x):
        return self.helper(x)


class B(A):
    @staticmethod
    def helper(x):
        return x + 7000


print(A().run(inp()), B().run(inp()))
''')
_add("object_oriented.move_staticmethod_static_scope", "name-clash", '''
def helper(x):
    return x - 1


class A:
    @staticmethod
    def helper(x):
        return x + 7000

    def run(self, x):
        return self.helper(x) + helper(x)


print(A().run(inp()))
''')
_add("object_oriented.move_staticmethod_static_scope", "uses-class-attr", '''
class A:
    K = 7000

    @staticmethod
    def helper(x):
        return x + A.K

    def run(self, x):
        return self.helper(x)


print(A().run(inp()))
''')
_add("object_oriented.fix_unconventional_class_definitions", "plain", '''
class Foo:
    x = 1


Foo.y = 7000
Foo.z = Foo.x + 1


def main(v):
    return Foo.x + Foo.y + Foo.z + v


print(main(inp()))
''')
_add("object_oriented.fix_unconventional_class_definitions", "depends-on-earlier", '''
K = 5


class Foo:
    x = 1


K = K + inp()
Foo.y = K


def main(v):
    return Foo.x + Foo.y + v


print(main(inp()))
''')
_add("object_oriented.fix_unconventional_class_definitions", "instance-between", '''
class Foo:
    x = 1


a = Foo()
print(hasattr(a, "y"))
Foo.y = 7000
print(a.y)
''')
_add("abstractions.simplify_if_control_flow", "plain", '''
def main(a, b):
    if a > 0:
        if b > 0:
            x = 1
        else:
            x = 2
    else:
        if b > 0:
            x = 1
        else:
            x = 3
    return x


print(main(inp(), inp()), main(inp(), inp()))
''')
_add("abstractions.simplify_if_control_flow", "effect-tests", '''
def main(a):
    if effect(1) > 0:
        if effect(2) > 0:
            x = 1
        else:
            x = 2
    else:
        if effect(2) > 0:
            x = 1
        else:
            x = 3
    return x


print(main(inp()), main(inp()))
''', tape=10)
_add("abstractions.create_abstractions", "plain", '''
def main(a, xs):
    if a > 0:
        y = 1
    elif a < 0:
        y = 2
    elif xs:
        y = 3
    else:
        y = 4
    for x in xs:
        if x > 1:
            z = x
            break
    else:
        z = 7000
    return y, z


print(main(inp(), [inp(), 2]), main(inp(), []))
''')

# ---- performance --------------------------------------------------------------------------------------------------
_add("performance.replace_sorted_heapq", "all", '''
def main(xs):
    a = sorted(xs)[0]
    b = sorted(xs)[-1]
    c = sorted(xs)[:2]
    d = sorted(xs, reverse=True)[0]
    e = sorted(xs, key=lambda v: -v)[0]
    f = sorted(xs)[-2:]
    g = list(reversed(sorted(xs)))[:2]
    return a, b, c, d, e, f, g


print(main([inp(), inp(), 2, inp()]))
''')
_add("performance.replace_sorted_heapq", "ties-key", '''
def main(xs):
    ps = [(x % 2, x) for x in xs]
    a = sorted(ps, key=lambda p: p[0])[0]
    b = sorted(ps, key=lambda p: p[0])[-1]
    c = sorted(ps, key=lambda p: p[0])[:2]
    d = sorted(ps, key=lambda p: p[0], reverse=True)[:2]
    return a, b, c, d


print(main([inp(), inp(), 2, inp(), 1]))
''')
_add("performance.replace_sorted_heapq", "symbolic-slice", '''
def main(xs):
    a = sorted(xs)[:4 - 2]
    b = sorted(xs)[1]
    c = sorted(xs)[:0]
    d = sorted(xs)[-1:]
    return a, b, c, d


print(main([inp(), inp(), 2, inp()]))
''')
_add("performance.replace_subscript_looping", "plain", '''
def main(rows):
    a = [r[0] for r in rows]
    b = [rows[i][1] for i in range(len(rows))]
    c = [rows[i] for i in range(len(rows))]
    return a, b, c


print(main([[inp(), 1], [2, inp()]]))
''')
_add("performance.optimize_contains_types", "plain", '''
def main(v):
    a = v in [1, 2, 3]
    b = v in (1, 2, 7000)
    c = v in list((1, 2))
    d = v in sorted([2, 1])
    e = v in [x for x in range(3)]
    return a, b, c, d, e


print(main(inp()), main(inp()))
''')
_add("performance.optimize_contains_types", "unhashable-member", '''
def main(v):
    a = [v] in [[1], [2]]
    b = v in [1, [2]]
    c = {v: 1} in [{1: 1}]
    return a, b, c


print(main(inp()), main(inp()))
''')
_add("performance.remove_redundant_chained_calls", "plain", '''
def main(xs):
    a = sorted(list(xs))
    b = list(sorted(xs))
    c = sum(list(xs))
    d = list(reversed(sorted(xs)))
    e = list(reversed(sorted(xs, reverse=True)))
    f = sorted(sorted(xs, key=lambda v: v % 2))
    g = sorted(reversed(xs), key=lambda v: v % 2)
    h = list(iter(list(xs)))
    i = set(sorted(xs)) == set(xs)
    return a, b, c, d, e, f, g, h, i


print(main([inp(), inp(), 2, 1]))
''')
_add("performance.remove_redundant_chained_calls", "reversed-ties", '''
def main(xs):
    ps = [(x % 2, x) for x in xs]
    a = list(reversed(sorted(ps, key=lambda p: p[0])))
    b = sorted(reversed(ps), key=lambda p: p[0])
    c = sorted(list(reversed(ps)), key=lambda p: p[0])
    return a, b, c


print(main([inp(), inp(), 2, 1, 3]))
''')
_add("performance.remove_redundant_iter", "plain", '''
def main(xs):
    out = []
    for x in list(xs):
        out.append(x)
    for x in sorted(xs):
        out.append(x)
    for x in iter(xs):
        out.append(x)
    return out, [y for y in list(xs)], sum(y for y in tuple(xs))


print(main([inp(), inp(), 2]))
''')
_add("performance.remove_redundant_iter", "mutated-in-loop", '''
def main(xs):
    for x in list(xs):
        if x > 0:
            xs.remove(x)
    d = {1: 2, 3: 4}
    for k in list(d):
        del d[k]
    for k in list(d.keys()):
        d.pop(k)
    return xs, d


print(main([inp(), inp(), 2, 1]))
''')
_add("performance.remove_redundant_iter", "mutated-in-comprehension-call", '''
def main(xs):
    def drop(v):
        xs.remove(v)
        return v

    return [drop(x) for x in list(xs)], xs


print(main([inp(), inp(), 2, 1]))
''')

# ---- control-flow rules: shapes the harvested snippets do not contain ------------------------------------------
_add("fixes.early_continue", "plain", '''
def main(xs):
    out = []
    for x in xs:
        if x > 0:
            out.append(x)
            out.append(x + 1)
            out.append(x + 2)
            out.append(x + 3)
            out.append(x + 4)
            out.append(x + 5)
    return out


print(main([inp(), inp(), 2]))
''')
_add("fixes.early_continue", "code-after-if", '''
def main(xs):
    out = []
    for x in xs:
        if x > 0:
            out.append(x)
            out.append(x + 1)
            out.append(x + 2)
            out.append(x + 3)
            out.append(x + 4)
            out.append(x + 5)
        out.append(7000)
    return out


print(main([inp(), inp(), 2]))
''')
_add("fixes.early_continue", "loop-else", '''
def main(xs):
    out = []
    for x in xs:
        if x > 0:
            out.append(x)
            out.append(x + 1)
            out.append(x + 2)
            out.append(x + 3)
            out.append(x + 4)
            if x > 2:
                break
    else:
        out.append("else")
    return out


print(main([inp(), inp(), 2]), main([3]))
''')
_add("fixes.early_continue", "while", '''
def main(n):
    out = []
    while n > 0:
        n -= 1
        if n % 2:
            out.append(n)
            out.append(n + 1)
            out.append(n + 2)
            out.append(n + 3)
            out.append(n + 4)
            out.append(n + 5)
    return out


print(main(inp() + 3))
''')
_add("fixes.early_continue", "if-else", '''
def main(xs):
    out = []
    for x in xs:
        if x > 0:
            out.append(x)
            out.append(x + 1)
            out.append(x + 2)
            out.append(x + 3)
            out.append(x + 4)
            out.append(x + 5)
        else:
            out.append(-1)
    return out


print(main([inp(), inp(), 2]))
''')
_add("fixes.swap_if_else", "elif-chain", '''
def main(a):
    if a > 0:
        pass
    elif a < 0:
        print("neg")
    else:
        print("zero")
    if not a:
        print(1)
        print(2)
        print(3)
        print(4)
    else:
        print(5)
    return a


print(main(inp()), main(inp()), main(0))
''')
_add("fixes.swap_if_else", "chained-compare", '''
def main(a, b):
    if 0 < a < 7000:
        print(1)
        print(2)
        print(3)
        print(4)
        print(5)
    else:
        print(6)
    if a < b <= 2:
        pass
    else:
        print("no")
    return a


print(main(inp(), inp()), main(inp(), inp()))
''')
_add("fixes.swap_if_else", "boolop", '''
def main(a, b):
    if a > 0 and b > 0 or effect(a):
        print(1)
        print(2)
        print(3)
        print(4)
        print(5)
    else:
        print(6)
    if a or not b:
        pass
    else:
        print("no")
    return a


print(main(inp(), inp()), main(inp(), inp()))
''', tape=10)
_add("fixes.fix_if_return", "plain", '''
def main(a, xs):
    if a > 7000 - 7001:
        return True
    else:
        return False


def second(a, xs):
    if xs:
        return True
    return False


def third(a):
    if a:
        return False
    return True


print(main(inp(), []), second(1, [inp()]), second(1, []), third(inp()), third(0))
''')
_add("fixes.fix_if_assign", "plain", '''
def main(a, xs):
    if a > 0:
        x = True
    else:
        x = False
    if xs:
        y = True
    else:
        y = False
    if a:
        z = False
    else:
        z = True
    return x, y, z


print(main(inp(), [inp()]), main(0, []))
''')
_add("fixes.remove_redundant_else", "loop-continue", '''
def main(xs):
    out = []
    for x in xs:
        if x > 0:
            out.append(x)
            continue
        else:
            out.append(-x)
        out.append(0)
    return out


def second(a):
    if a > 0:
        return 1
    elif a < 0:
        return 2
    else:
        a = a + 7000
    return a


print(main([inp(), inp(), 2]), second(inp()), second(0))
''')
_add("fixes.remove_redundant_else", "raise-in-try", '''
def main(a):
    try:
        if a > 0:
            raise ValueError(a)
        else:
            print("else")
        print("after")
    except ValueError:
        print("caught")
    return a


print(main(inp()), main(inp()))
''')
_add("fixes.replace_with_filter", "plain", '''
def main(xs):
    out = []
    for x in xs:
        if x > 0:
            out.append(x)
            print("x", x)
    for y in xs:
        if not y:
            continue
        print("y", y)
    return out


print(main([inp(), inp(), 2, 0]))
''')
_add("fixes.replace_with_filter", "loopvar-after", '''
def main(xs):
    x = None
    for x in xs:
        if x:
            print("x", x)
    return x


print(main([inp(), inp(), 0]))
''')
_add("fixes.replace_with_filter", "mutates", '''
def main(xs):
    for x in xs:
        if x > 0:
            print("x", x)
            if len(xs) < 5:
                xs.append(-x)
    return xs


print(main([inp(), inp(), 2]))
''')
_add("fixes.redundant_enumerate", "plain", '''
def main(xs):
    out = []
    for _, x in enumerate(xs):
        out.append(x)
    for i, _ in enumerate(xs):
        out.append(i)
    for i, _ in enumerate(xs, 5):
        out.append(i)
    for _, x in enumerate(xs, start=2):
        out.append(x)
    return out, [x for _, x in enumerate(xs)], [i for i, _ in enumerate(xs, 1)]


print(main([inp(), inp(), 2]))
''')
_add("fixes.redundant_enumerate", "generator-arg", '''
def main(xs):
    out = []
    for i, _ in enumerate(x for x in xs if x > 0):
        out.append(i)
    for i, _ in enumerate({1: 2, 3: 4}):
        out.append(i)
    return out


print(main([inp(), inp(), 2]))
''')
_add("fixes.unused_zip_args", "equal-length", '''
def main(xs):
    out = []
    for a, _ in zip(xs, xs):
        out.append(a)
    for _, b in zip(range(len(xs)), xs):
        out.append(b)
    return out


print(main([inp(), inp(), 2]))
''')
_add("fixes.simplify_assign_immediate_return", "variants", '''
def main(a):
    out = a + 7000
    return out


def second(a):
    out = effect(a)
    print("between")
    return out


def third(a):
    out: int = a + 1
    return out


def fourth(a):
    global G
    G = a + 1
    return G


G = 0
print(main(inp()), second(1), third(inp()), fourth(inp()), G)
''')
_add("fixes.simplify_assign_immediate_return", "nonlocal-closure", '''
def main(a):
    total = 0

    def bump(v):
        nonlocal total
        total = total + v
        return total

    r = bump(a)
    return r, total, bump(1)


print(main(inp()))
''')
_add("fixes.simplify_assign_immediate_return", "global-in-nested-function", '''
counter = 0


def make_counter():
    def bump(step):
        global counter
        counter = counter + step
        return counter

    return bump


bump = make_counter()
print(bump(inp()), bump(1), counter)
''')
_add("fixes.simplify_assign_immediate_return", "nonlocal-parameter", '''
def make_accumulator(total):
    def add(amount):
        nonlocal total
        total = total + amount
        return total

    def current():
        return total

    return add, current


add, current = make_accumulator(inp())
print(add(inp()), add(7000), current())
''')
_add("fixes.simplify_assign_immediate_return", "nonlocal-two-levels-and-class", '''
def outer(seed):
    def middle():
        def inner(v):
            nonlocal seed
            seed = seed * 2 + v
            return seed

        return inner

    class Holder:
        def read(self):
            value = seed
            return value

    return middle(), Holder()


inner, holder = outer(inp())
print(inner(inp()), inner(1), holder.read())
''')
_add("symbolic_math.simplify_boolean_expressions_symmath", "absorption-of-comparisons", '''
def main(x, y, z):
    out = []
    if (x > 1 and y < 2) or (x > 1 and y < 2 and z == 0):
        out.append("absorbed")
    if x > 1 and (x > 1 or y < 2):
        out.append("and-or")
    if not (not (y < 2) or not (z == 0)):
        out.append("de-morgan")
    return out


print(main(inp(), inp(), inp()))
''')
_add("symbolic_math.simplify_boolean_expressions_symmath", "repeated-guard-on-attribute", '''
class Node:
    def __init__(self, size):
        self.size = size


def main(node):
    if node is not None and node.size > 1 and node is not None:
        return "big"
    return "small"


print(main(Node(inp())), main(None), main(Node(7000)))
''')
_add("symbolic_math.simplify_boolean_expressions_symmath", "calls-and-subscripts", '''
def main(xs, k):
    a = len(xs) > 1 and (len(xs) > 1 or xs[0] == k)
    b = (xs[0] == k or k > 0) and (xs[0] == k or not k > 0)
    c = (k > 0 and xs[0] == k) or (k > 0 and not xs[0] == k)
    return a, b, c


print(main([inp(), inp()], inp()))
''')
_add("fixes.replace_dict_assign_with_dict_literal", "read-in-the-middle-of-the-run", '''
def main(x):
    d = {}
    d[1] = x
    d[2] = d[1]
    d[1] = 7000
    d[3] = 5
    return d, list(d)


print(main(inp()))
''')
_add("fixes.replace_dict_assign_with_dict_literal", "read-in-key-then-overwrite", '''
def main(x):
    d = {0: x}
    d[d[0]] = 1
    d[0] = 9
    d[5] = len(d)
    d[6] = 7000
    return d, list(d)


print(main(inp()))
''')
_add("fixes.replace_dict_update_with_dict_literal", "read-in-the-middle-of-the-run", '''
def main(x):
    d = {"a": x}
    d.update({"b": 2})
    d.update({"c": d["a"]})
    d.update({"a": 7000})
    d.update({"e": 5})
    return d, list(d)


print(main(inp()))
''')
_add("fixes.replace_dictcomp_assign_with_dict_literal", "read-in-the-middle-of-the-run", '''
def main(x):
    d = {k: k + x for k in (1, 2)}
    d[3] = d[1]
    d[1] = 7000
    d[4] = 4
    return d, list(d)


print(main(inp()))
''')
_add("fixes.replace_dictcomp_update_with_dict_literal", "read-in-the-middle-of-the-run", '''
def main(x):
    d = {k: k + x for k in (1, 2)}
    d.update({3: d[2]})
    d.update({2: 7000})
    d.update({5: 5})
    return d, list(d)


print(main(inp()))
''')
_add("fixes.move_before_loop", "default-before-inner-loop-target", '''
def main(rows):
    out = []
    for row in rows:
        last = 0
        for last in row:
            pass
        out.append(last)
    return out


print(main([[inp(), 2], [], [3], []]))
''')
_add("fixes.move_before_loop", "default-before-with-and-try-targets", '''
class cm:
    def __init__(self, v):
        self.v = v

    def __enter__(self):
        return self.v

    def __exit__(self, *args):
        return False


def main(xs):
    out = []
    for x in xs:
        got = -1
        if x > 0:
            with cm(x) as got:
                pass
        err = None
        try:
            if x < 0:
                raise ValueError(x)
        except ValueError as err:
            out.append("caught")
        out.append(got)
    return out


print(main([inp(), inp(), 1, -1]))
''')
_add("fixes.undefine_unused_variables", "default-before-loop-target-module-level", '''
count = -1
for count, tok in enumerate([7, 8][: inp()]):
    print("tok", tok)
print(count)
''')
_add("fixes.undefine_unused_variables", "default-before-loop-target-in-function", '''
def main(items):
    index = -1
    item = None
    for index, item in enumerate(items):
        if item > 1:
            break
    return index, item


print(main([1, 2, 3][: inp()]), main([]))
''')
_add("abstractions.overused_constant", "function-with-docstring", '''
def main(x):
    """Docstring of main."""
    return ["the quick brown fox jumps", "the quick brown fox jumps", "the quick brown fox jumps", "the quick brown fox jumps", "the quick brown fox jumps", x]


print(main(inp()), main.__doc__)
''')
_add("abstractions.overused_constant", "literal-match-pattern", '''
def main(x):
    match x:
        case "the quick brown fox jumps":
            return 1
        case (0, 1, "north-facing wall"):
            return 2
    return ["the quick brown fox jumps", "the quick brown fox jumps", "the quick brown fox jumps", "the quick brown fox jumps", "the quick brown fox jumps",
            (0, 1, "north-facing wall"), (0, 1, "north-facing wall"), (0, 1, "north-facing wall"), (0, 1, "north-facing wall"), (0, 1, "north-facing wall")]


print(main("the quick brown fox jumps"), main((0, 1, "north-facing wall")), main(inp()))
''')
_add("abstractions.overused_constant", "class-with-docstring-and-default-argument", '''
class Greeter:
    """Docstring of the class."""

    def greet(self, text="a fairly long constant text"):
        """Docstring of greet."""
        return [text, "a fairly long constant text", "a fairly long constant text", "a fairly long constant text", "a fairly long constant text"]


print(Greeter().greet(), Greeter.__doc__, Greeter.greet.__doc__, inp())
''')
_add("fixes.replace_functions_with_literals", "all", '''
def main(xs):
    a = list()
    b = dict()
    c = tuple()
    d = list([1, xs[0]])
    e = tuple([xs[0], 2])
    f = sorted(set([1, 2, xs[0]]))
    g = list((1, 2))
    h = dict(a=1)
    i = list(xs)
    j = sorted(set())
    a.append(1)
    return a, b, c, d, e, f, g, h, i, j, i is xs


print(main([inp(), inp()]))
''')
_add("fixes.replace_for_loops_with_set_list_comp", "seeded-set", '''
def main(xs, y):
    seen = set([7, y])
    for x in xs:
        seen.add(x * 2)
    return sorted(seen)


print(main([inp(), inp()], inp()))
''')
_add("fixes.replace_for_loops_with_set_list_comp", "seeded-list-and-set-literal", '''
def main(xs, y):
    out = list((9, y))
    for x in xs:
        out.append(x + 1)
    pool = {y, 7000}
    for x in xs:
        pool.add(x)
    third = [y]
    for x in xs:
        if x > 0:
            third.append(x)
    return out, sorted(pool), third


print(main([inp(), inp()], inp()))
''')
_add("fixes.replace_for_loops_with_set_list_comp", "seeded-set-from-iterable-variable", '''
def main(xs, ys):
    seen = set(ys)
    for x in xs:
        if x != 0:
            seen.add(x)
    frozen = frozenset(ys)
    acc = set()
    for x in frozen:
        acc.add(x + 1)
    return sorted(seen), sorted(acc)


print(main([inp(), inp()], [inp(), 5]))
''')
_add("fixes.replace_for_loops_with_set_list_comp", "variants", '''
def main(xs):
    out = []
    for x in xs:
        if x > 0:
            out.append(x * 2)
    evens = set()
    for x in xs:
        evens.add(x % 2)
    total = 0
    for x in xs:
        total += x
    count = 7000
    for x in xs:
        if x:
            count += 1
    both = []
    for x in xs:
        if x > 0:
            both.append(x)
        else:
            both.append(-x)
    return out, sorted(evens), total, count, both


print(main([inp(), inp(), 2]))
''')
_add("fixes.replace_for_loops_with_set_list_comp", "nonempty-start", '''
def main(xs):
    out = [7000]
    for x in xs:
        out.append(x)
    s = {1}
    for x in xs:
        s.add(x)
    t = 1
    for x in xs:
        t *= x
    return out, sorted(s), t


print(main([inp(), inp(), 2]))
''')
_add("fixes.replace_for_loops_with_set_list_comp", "self-reference", '''
def main(xs):
    out = []
    for x in xs:
        out.append(len(out) + x)
    acc = 0
    for x in xs:
        acc += acc + x
    return out, acc


print(main([inp(), inp(), 2]))
''')
_add("fixes.replace_for_loops_with_set_list_comp", "loop-else-break", '''
def main(xs):
    out = []
    for x in xs:
        out.append(x)
    else:
        out.append("else")
    res = []
    for x in xs:
        if x > 1:
            break
        res.append(x)
    return out, res


print(main([inp(), inp(), 2]))
''')
_add("fixes.replace_for_loops_with_dict_comp", "variants", '''
def main(xs):
    d = {}
    for x in xs:
        d[x] = x * 2
    e = {0: 7000}
    for x in xs:
        e[x] = 1
    f = {}
    for x in xs:
        if x:
            f[x % 2] = x
    g = {}
    for x in xs:
        g[x] = len(g)
    return d, e, f, g


print(main([inp(), inp(), 2]))
''')
_add("fixes.merge_nested_comprehensions", "variants", '''
def main(xs):
    a = [y for y in [x * 2 for x in xs]]
    b = [y for y in [x for x in xs if x > 0] if y < 3]
    c = sum([x for x in xs])
    d = {y for y in {x % 3 for x in xs}}
    e = [y + n for n, y in enumerate([x for x in xs if x])]
    return a, b, c, sorted(d), e


print(main([inp(), inp(), 2]))
''')
_add("fixes.remove_redundant_comprehensions", "variants", '''
def main(xs, d):
    a = [x for x in xs]
    b = {x for x in xs}
    c = {k: v for k, v in d.items()}
    e = [x for x in range(3)]
    f = list(x for x in xs)
    g = [(k, v) for k, v in d.items()]
    h = {k: v for v, k in d.items()}
    return a, sorted(b), c, e, f, g, h, a is xs


print(main([inp(), inp(), 2], {1: inp(), 2: 3}))
''')
_add("fixes.replace_collection_add_update_with_collection_literal", "variants", '''
def main(a, xs):
    x = [1, a]
    x.append(7000)
    x.extend(xs)
    y = {1}
    y.add(a)
    y.update(xs)
    z = [a]
    z.append(z[0] + 1)
    w = []
    w.append(len(w))
    v = [1]
    v.extend(v)
    return x, sorted(y), z, w, v


print(main(inp(), [inp(), 2]))
''')
_add("fixes.replace_dict_assign_with_dict_literal", "variants", '''
def main(a):
    d = {1: a}
    d[2] = 7000
    d[3] = d[1] + 1
    e = {}
    e[a] = 1
    e[a] = 2
    return d, e, list(d)


print(main(inp()))
''')
_add("fixes.replace_dict_assign_with_dict_literal", "evaluation-order", '''
def main(a):
    f = {1: 1}
    f[effect(1)] = effect(2)
    return f


print(main(inp()))
''')
_add("fixes.replace_dict_update_with_dict_literal", "variants", '''
def main(a):
    d = {1: a}
    d.update({2: 7000})
    d.update({3: len(d)})
    e = {1: 1, 2: 2}
    e.update({1: a})
    f = {}
    f.update(x=a)
    return d, e, list(e), f


print(main(inp()))
''')
_add("fixes.simplify_dict_unpacks", "variants", '''
def main(a):
    d = {1: a}
    e = {**{1: 2, 2: a}, 3: 4}
    f = {**d}
    g = {**d, **{1: 7000}}
    h = {1: 0, **{1: a}}
    return e, f, g, h, list(h), f is d


print(main(inp()))
''')
_add("fixes.simplify_collection_unpacks", "variants", '''
def main(a, xs):
    b = [*[1, a], 3]
    c = (*(), a)
    d = [*xs]
    e = [*(x for x in xs)]
    f = {*{1, a}, *[2]}
    g = [*[], *xs, *[effect(1), effect(2)]]
    return b, c, d, e, sorted(f), g, d is xs


print(main(inp(), [inp(), 2]))
''')
_add("fixes.replace_redundant_starred", "variants", '''
def f(*args, **kwargs):
    return args, sorted(kwargs.items())


def main(a, xs):
    return f(*[1, a]), f(*(a,), 2), f(**{"k": a}), f(*xs), f(*[effect(1)], *[effect(2)]), f(*[], a)


print(main(inp(), [inp(), 2]))
''')
_add("fixes.implicit_dict_keys_values_items", "variants", '''
def main(d):
    a = [k for k, _ in d.items()]
    b = [v for _, v in d.items()]
    c = [(k, d[k]) for k in d]
    e = [d[k] for k in d]
    out = []
    for k in d.keys():
        out.append(d[k])
    for k, v in d.items():
        out.append(k)
    return a, b, c, e, out


print(main({1: inp(), 2: 3}))
''')
_add("fixes.implicit_defaultdict", "variants", '''
def main(xs):
    d = {}
    for x in xs:
        if x not in d:
            d[x] = []
        d[x].append(x)
    e = {}
    for x in xs:
        if x % 2 not in e:
            e[x % 2] = set()
        e[x % 2].add(x)
    return sorted(d.items()), sorted((k, sorted(v)) for k, v in e.items()), 5 in d, len(d)


print(main([inp(), inp(), 2]))
''')
_add("fixes.implicit_defaultdict", "read-missing-key-later", '''
def main(xs):
    d = {}
    for x in xs:
        if x not in d:
            d[x] = []
        d[x].append(x)
    try:
        d[99]
        missing = "no error"
    except KeyError:
        missing = "KeyError"
    return missing, len(d)


print(main([inp(), 2]))
''')
_add("fixes.replace_listcomp_append_with_plus", "variants", '''
def main(xs):
    a = [x for x in xs]
    a.append(7000)
    b = [x for x in xs]
    b.append(len(b))
    c = [x for x in xs if x]
    c.extend(xs)
    return a, b, c


print(main([inp(), inp(), 2]))
''')
_add("fixes.replace_setcomp_add_with_union", "variants", '''
def main(xs):
    a = {x for x in xs}
    a.add(7000)
    b = {x for x in xs}
    b.add(len(b))
    c = {x for x in xs}
    c.update(xs)
    return sorted(a), sorted(b), sorted(c)


print(main([inp(), inp(), 2]))
''')
_add("fixes.replace_negated_numeric_comparison", "variants", '''
def main(a, b):
    return (not a > b, not a < 7000 - 7000, not a == b, not a != b, not (a >= b), not a <= b <= 2, not (a > 0 and b > 0),
            not a in [b], not a is None, not a > b > 0)


print(main(inp(), inp()), main(inp(), inp()))
''')
_add("fixes.breakout_starred_args", "variants", '''
def f(*args):
    return args


def main(a, xs):
    return f(*[1, a]), f(*(a, 2), 3), f(*xs), f(*[a] * 2), f(*[x for x in xs])


print(main(inp(), [inp(), 2]))
''')
_add("fixes.merge_chained_comps", "variants", '''
def main(xs):
    a = [y + 1 for y in (x * 2 for x in xs)]
    b = [y for y in (x for x in xs if x > 0) if y < 3]
    c = sum(y for y in (effect(x) for x in xs))
    d = [(x, y) for y in (x for x in xs) for x in (1, 2)]
    return a, b, c, d


print(main([inp(), 2]))
''', tape=8)
_add("fixes.remove_redundant_comprehension_casts", "variants", '''
def main(xs):
    a = list([x for x in xs])
    b = sorted(set({x for x in xs}))
    c = list({x % 2 for x in xs}) == sorted({x % 2 for x in xs}) or True
    d = tuple([x for x in xs])
    e = sorted(set([x for x in xs]))
    f = list(x for x in xs)
    g = dict({x: 1 for x in xs})
    h = sum([x for x in xs])
    i = "-".join([str(x) for x in xs])
    return a, b, c, d, e, f, g, h, i


print(main([inp(), inp(), 2]))
''')
_add("fixes.delete_unused_functions_and_classes", "plain", '''
def used(a):
    return helper(a) + 1


def helper(a):
    return a * 2


def unused(a):
    return effect(a)


class Unused:
    k = 7000

    def m(self):
        return effect(1)


print(used(inp()))
''')
_add("fixes.delete_unused_functions_and_classes", "class-body-effect", '''
class Unused:
    k = effect(7000)


print(inp())
''')
_add("fixes.delete_unused_functions_and_classes", "init-subclass", '''
class Registry:
    items = []

    def __init_subclass__(cls):
        Registry.items.append(cls.__name__)


class Plugin(Registry):
    pass


print(inp(), Registry.items)
''')
_add("fixes.delete_unused_functions_and_classes", "registering-decorator", '''
HOOKS = []


def deco(fn):
    HOOKS.append(fn.__name__)
    return fn


@deco
def hooked(a):
    return a


print(inp(), HOOKS)
''')
_add("fixes.undefine_unused_variables", "variants", '''
def main(a, xs):
    unused = effect(a)
    other = a + 1
    x, y = a, effect(2)
    for i in xs:
        z = i
    w = q = a
    del q
    t = 0
    t += effect(3)
    (u := a + 1)
    return a, x


print(main(inp(), [inp()]))
''', tape=10)
_add("fixes.undefine_unused_variables", "closure-and-conditional", '''
def main(a):
    k = a + 1

    def inner():
        return k

    if a > 0:
        m = 1
    else:
        m = 2
    n = 5
    if cond():
        n = 6
    return inner(), m, n


print(main(inp()))
''')
_add("fixes.delete_pointless_statements", "variants", '''
def main(a, xs):
    a + 1
    [effect(x) for x in xs]
    xs[0]
    a if a else effect(1)
    f"{effect(2)}"
    a < effect(3)
    -a
    "doc"
    ...
    xs.sort
    return a


print(main(inp(), [inp(), 2]))
''', tape=12)
_add("fixes.move_before_loop", "variants", '''
def main(xs, n):
    out = []
    for x in xs:
        y = 10
        out.append(x + y)
    for x in xs:
        k = len(out)
        out.append(k)
    for x in xs:
        z = n + 1
        n = n + 1
        out.append(z)
    while n < 3:
        step = 7000
        n += 1
        out.append(step)
    return out


print(main([inp(), inp(), 2], inp()))
''')
_add("fixes.move_before_loop", "effectful-or-unbound", '''
def main(xs):
    out = []
    for x in xs:
        y = effect(1)
        out.append(y)
    for x in xs:
        if x > 0:
            w = 5
        out.append(x)
    for x in xs:
        v = out
        out = out + [1]
    return out, len(v)


print(main([inp(), 2]))
''', tape=10)
_add("fixes.breakout_common_code_in_ifs", "variants", '''
def main(a):
    if a > 0:
        print("common")
        x = 1
    else:
        print("common")
        x = 2
    if a > 1:
        y = 1
        print("tail", y)
    elif a > 0:
        y = 2
        print("tail", y)
    else:
        y = 3
        print("tail", y)
    if a:
        a = a - 1
        z = 1
    else:
        a = a - 1
        z = 2
    return x, y, z, a


print(main(inp()), main(inp()))
''')
_add("fixes.breakout_common_code_in_ifs", "test-depends-on-common", '''
def main(a):
    if a > 0:
        a = a - 2
        x = 1
    elif a > -2:
        a = a - 2
        x = 2
    else:
        a = a - 2
        x = 3
    return x, a


print(main(inp()), main(inp()), main(inp()))
''')
_add("fixes.singleton_eq_comparison", "variants", '''
def main(a, xs):
    return a == None, a != None, xs == None, None == a


print(main(inp(), []), main(None, None))
''')
_add("fixes.remove_duplicate_dict_keys", "order", '''
def main(a):
    d = {1: a, 2: 0, 1: 7000}
    return d, list(d)


print(main(inp()))
''')
_add("fixes.remove_duplicate_dict_keys", "values", '''
def main(a):
    d = {1: a, 1: 7000, 2: 0}
    e = {effect(1): 1, effect(1): 2}
    f = {a: 1, a: 2, 3: 3}
    g = {1: effect(1), 1: effect(2)}
    return sorted(d.items()), e, sorted(f.items()), g


print(main(inp()))
''')
_add("fixes.remove_duplicate_set_elts", "variants", '''
def main(a):
    s = {1, a, 1, a}
    t = {effect(1), effect(1)}
    u = {1, True, 1.0, a}
    return sorted(s), sorted(t), len(u)


print(main(inp()))
''')
_add("symbolic_math.simplify_math_iterators", "variants", '''
def main(n):
    b = sum([1 for _ in range(n)])
    c = sum(x for x in range(2, 10))
    d = sum(3 for _ in range(4))
    return b, c, d


print(main(inp() + 4))
''')
_add("fixes.replace_nested_loops_with_set_list_comp", "variants", '''
def main(xs):
    out = []
    for x in xs:
        for y in range(2):
            out.append(x + y)
    s = set()
    for x in xs:
        if x > 0:
            for y in xs:
                s.add(x * y)
    t = []
    for x in xs:
        for y in list(t):
            t.append(y)
        t.append(x)
    return out, sorted(s), t


print(main([inp(), inp(), 2]))
''')
_add("fixes.delete_commented_code", "variants", '''
def main(a):
    # a = a + 1
    # print(a)
    s = "# x = 1"
    t = """
# y = 2
"""
    # just a remark about a = 1 + 2, nothing else
    return a, s, t


print(main(inp()))
''')
_add("fixes.invalid_escape_sequence", "variants", '''
def main(a):
    s = "a\\d+"
    t = "tab\\there"
    u = b"\\d"
    v = "mix\\n\\w"
    return s, t, u, v, len(v), a


print(main(inp()))
''')

# ---- shapes contributed by the third red-team round (each stands for a class of neighbours) ----------------------
for _k, _arg in {"set-literal": "{3, 2, a}", "tuple-literal": "(3, 2, a)", "dict-literal": "{3: 1, a: 2}", "string": '"ba"',
                 "dup-set": "{4, 4, 4}", "generator": "(v for v in (3, 2))", "name": "xs", "call": "sorted(xs)",
                 "starred-list": "[*xs, 5]", "two-args-safe": "[3, 2]"}.items():
    _add("fixes.replace_collection_add_update_with_collection_literal", "list-extend-" + _k, """
def main(a, xs):
    x = [1]
    x.extend(%s)
    return x


print(main(inp(), [inp(), 2]))
""" % _arg)
    _add("fixes.replace_collection_add_update_with_collection_literal", "set-update-" + _k, """
def main(a, xs):
    y = {1}
    y.update(%s)
    return sorted(y, key=repr)


print(main(inp(), [inp(), 2]))
""" % _arg)
    _add("fixes.replace_listcomp_append_with_plus", "extend-" + _k, """
def main(a, xs):
    x = [v for v in xs]
    x.extend(%s)
    return x


print(main(inp(), [inp(), 2]))
""" % _arg)
    _add("fixes.replace_setcomp_add_with_union", "update-" + _k, """
def main(a, xs):
    y = {v for v in xs}
    y.update(%s)
    return sorted(y, key=repr)


print(main(inp(), [inp(), 2]))
""" % _arg)

for _k, _loop in {
    "starred-tail-two": "for name, _, *coords in zip(names, ids, xs, ys):\n        out.append((name, coords))",
    "starred-tail-one": "for name, _, *coords in zip(names, ids, xs):\n        out.append((name, coords))",
    "starred-tail-none": "for name, _, *rest in zip(names, ids):\n        out.append((name, rest))",
    "starred-head": "for *heads, _, y in zip(names, ids, xs, ys):\n        out.append((heads, y))",
    "two-unused": "for a, _, e, _ in zip(names, ids, xs, ys):\n        out.append((a, e))",
    "nested-target": "for (a, _), y in zip(zip(names, ids), ys):\n        out.append((a, y))",
    "shorter-unused": "for a, _ in zip(names, ids[:2]):\n        out.append(a)",
    "strict": "for a, _ in zip(names, ids, strict=True):\n        out.append(a)",
    "unused-call": "for a, _ in zip(names, (effect(i) for i in ids)):\n        out.append(a)",
    "comprehension": "out = [(name, sum(coords)) for _, name, *coords in zip(ids, names, xs, ys)]",
}.items():
    _add("fixes.unused_zip_args", _k, """
def main(p):
    names = ["a", "b", "c"]
    ids = [1, 2, p]
    xs = [10, 20, 30]
    ys = [100, 200, 300]
    out = []
    %s
    return out


print(main(inp()))
""" % _loop)

_add("fixes.early_continue", "nested-if-in-else-not-last", """
def main(xs):
    total = 0
    for x in xs:
        if x % 2 == 0:
            total += x
        else:
            if x > 1:
                total -= 1
            else:
                total += 10
                total *= 2
                print("small", x)
            print("odd", x, total)
    return total


print(main([inp(), inp(), 2, 3, 1]))
""")
_add("fixes.early_continue", "nested-if-in-else-then-append", """
def main(values):
    seen = []
    for v in values:
        if v < 0:
            print("negative", v)
        else:
            if v > 2:
                print("huge", v)
            else:
                w = v * 3
                w += 1
                print("regular", v, w)
            seen.append(v)
    return seen


print(main([inp(), inp(), 3, 1]))
""")
_add("fixes.early_continue", "nested-loop-in-else", """
def main(rows):
    for row in rows:
        if not row:
            print("empty row")
        else:
            for cell in row:
                if cell > 1:
                    print("big", cell)
                else:
                    half = cell * 2
                    print("cell", cell)
                    print("half", half)
                print("done with", cell)
    return len(rows)


print(main([[inp(), 2, 1], [], [inp()]]))
""")
_add("fixes.early_continue", "elif-chain-long-else", """
def main(xs):
    total = 0
    for x in xs:
        if x % 2 == 0:
            total += x
        elif x > 1:
            total -= 1
        else:
            total += 10
            total *= 2
            print("small", x)
    return total


print(main([inp(), inp(), 2, 3, 1]))
""")
_add("fixes.early_continue", "long-else-uses-loopvar-after", """
def main(xs):
    y = 0
    for x in xs:
        if x > 1:
            y = 13
        else:
            x += 1
            x *= 12
            print(x > 30)
            y = 100 - x
    return y


print(main([inp(), inp(), 2]))
""")

_add("object_oriented.remove_unused_self_cls", "same-name-static-elsewhere", """
class Greeter:
    @staticmethod
    def describe():
        return "greeter"

    def version(self):
        return 2


class Counter:
    def __init__(self, count):
        self.count = count

    def describe(self):
        return "counter %d" % self.count

    def report(self):
        print(self.describe())


Counter(inp()).report()
print(Greeter.describe(), Greeter().version())
""")
_add("object_oriented.remove_unused_self_cls", "same-name-classmethod-elsewhere", """
class Counter:
    def __init__(self, count):
        self.count = count

    def build(self, extra):
        return self.count + extra

    def report(self, extra):
        print("built", self.build(extra))

    def unit(self):
        return 1


class Factory:
    made = 0

    @classmethod
    def build(cls, extra):
        cls.made += extra
        return cls.made


c = Counter(inp())
c.report(5)
print(c.unit(), Factory.build(2), Factory.build(3))
""")
_add("object_oriented.remove_unused_self_cls", "calls-own-static-and-instance", """
class A:
    k = 7000

    @staticmethod
    def s(x):
        return x + 1

    def inst(self, x):
        return self.k + x

    def via_static(self, x):
        return self.s(x)

    def via_inst(self, x):
        return self.inst(x)

    @classmethod
    def via_cls(cls, x):
        return cls.s(x) + cls.k


a = A()
print(a.via_static(inp()), a.via_inst(inp()), A.via_cls(1), a.via_cls(2))
""")

for _k, _e in {"list-tuple-reversed-sorted": "list(tuple(reversed(sorted(v))))",
               "tuple-iter-reversed-sorted-rev": "tuple(iter(reversed(sorted(v, reverse=r))))",
               "sorted-list-reversed-sorted": "sorted(list(reversed(sorted(v))))",
               "list-gen-over-reversed-sorted-key": "list(tuple(x + 1 for x in reversed(sorted(v, key=lambda q: -q))))",
               "list-reversed-list": "list(reversed(list(v)))", "set-list-sorted": "sorted(set(list(sorted(v))))",
               "sum-list-tuple": "sum(list(tuple(v)))", "twice": "(list(reversed(sorted(v))), list(reversed(sorted(v))))"}.items():
    _add("performance.remove_redundant_chained_calls", "chain-" + _k, """
def main(v, r):
    return %s


print(main([inp(), inp(), 2, 1], inp() > 0))
""" % _e)

_add("fixes.delete_pointless_statements", "pure-function-rebound-in-loop", """
def trace(*message):
    return None


def main():
    global trace
    total = 0
    for level in (0, 1, 2, 3):
        if level == 2:
            trace = effect
        total += level
        total
        trace("level", level)
    return total


print(main())
""")
_add("fixes.delete_pointless_statements", "pure-function-rebound-in-if", """
VERBOSE = inp() > -9


def log(message):
    return None


if VERBOSE:
    log = effect

squares = [number * number for number in range(4)]
squares
log("squares computed")
print(squares)
""")
_add("fixes.delete_pointless_statements", "pure-function-rebound-by-global", """
def report(message):
    return None


def enable_reports():
    global report
    report = effect


words = ["a", "bb", inp()]
len(words)
report("before")
enable_reports()
report("after")
print(words)
""")
_add("fixes.delete_pointless_statements", "pure-function-rebound-toplevel", """
def report(message):
    return None


report("before")
report = effect
report("after")
print(inp())
""")
_add("fixes.delete_pointless_statements", "pure-function-shadowed-by-parameter", """
def report(message):
    return None


def main(report):
    report("inside")
    return 1


report("outside")
print(main(effect))
""")
_add("fixes.unused_zip_args", "pure-function-rebound", """
def stamps():
    return (1, 2, 3)


def noisy_stamps():
    effect("stamps requested")
    return (4, 5, 6)


def main():
    global stamps
    out = []
    for attempt in (0, 1):
        if attempt == 1:
            stamps = noisy_stamps
        for _, letter in zip(stamps(), "xyz"):
            out.append((attempt, letter))
    return out


print(main())
""", tape=8)


# ---- numpy rules: executed with the REAL numpy on object arrays whose entries are proxies (dtype=object keeps Python's
# integer arithmetic element by element; fixed-width overflow is outside the claim). Results are printed as lists.
_NP = "import numpy as np\n\n\n"
_add("performance_numpy.replace_implicit_dot", "sum-list-and-generator", _NP + """
def main(p, q, r):
    a = np.array([p, q, 7000], dtype=object)
    b = np.array([r, 2, p], dtype=object)
    c = sum([a_ * b_ for a_, b_ in zip(a, b)])
    d = np.sum(a_ * b_ for a_, b_ in zip(a, b))
    return c, d


print(main(inp(), inp(), inp()))
""")
_add("performance_numpy.replace_implicit_dot", "unequal-lengths", _NP + """
def main(p, q, r):
    a = np.array([p, q, 3], dtype=object)
    b = np.array([r, 2], dtype=object)
    return sum(x * y for x, y in zip(a, b))


print(main(inp(), inp(), inp()))
""")
_add("performance_numpy.replace_implicit_dot", "plain-lists", _NP + """
def main(p, q, r):
    a = [p, q, 1]
    b = [r, 2, p]
    return sum([x * y for x, y in zip(a, b)]) + np.dot(a, b)


print(main(inp(), inp(), inp()))
""")
_add("performance_numpy.replace_implicit_dot", "swapped-factors-and-filter", _NP + """
def main(p, q, r):
    a = np.array([p, q, 1], dtype=object)
    b = np.array([r, 2, p], dtype=object)
    swapped = sum(y * x for x, y in zip(a, b))
    filtered = sum(x * y for x, y in zip(a, b) if x > 0)
    three = sum(x * y for x, y in zip(a, b, a))
    return swapped, filtered, three


print(main(inp(), inp(), inp()))
""")
_add("performance_numpy.replace_implicit_dot", "two-dimensional-rows", _NP + """
def main(p, q, r):
    a = np.array([[p, q], [r, 1]], dtype=object)
    b = np.array([[1, p], [q, 2]], dtype=object)
    return sum(x * y for x, y in zip(a, b)).tolist()


print(main(inp(), inp(), inp()))
""")
_add("performance_numpy.replace_implicit_dot", "start-value-and-empty", _NP + """
def main(p, q):
    a = np.array([p, q], dtype=object)
    e = np.array([], dtype=object)
    return sum((x * y for x, y in zip(a, a)), 5), sum([x * y for x, y in zip(e, e)])


print(main(inp(), inp()))
""")
_add("performance_numpy.simplify_matmul_transposes", "square", _NP + """
def main(p, q, r):
    a = np.array([[p, 7000], [q, r]], dtype=object)
    b = np.array([[1, p], [q, 2]], dtype=object)
    return np.matmul(a.T, b.T).T.tolist()


print(main(inp(), inp(), inp()))
""")
_add("performance_numpy.simplify_matmul_transposes", "rectangular", _NP + """
def main(p, q, r):
    a = np.array([[p, 1, q], [q, r, 2]], dtype=object)
    b = np.array([[1, p], [q, 2], [r, r]], dtype=object)
    return np.matmul(a.T, b.T).T.tolist(), np.matmul(b.T, a.T).T.tolist()


print(main(inp(), inp(), inp()))
""")
_add("performance_numpy.simplify_matmul_transposes", "one-side-only-and-double", _NP + """
def main(p, q, r):
    a = np.array([[p, 1], [q, r]], dtype=object)
    b = np.array([[1, p], [q, 2]], dtype=object)
    one = np.matmul(a.T, b).T
    two = np.matmul(a.T.T, b.T).T
    three = np.matmul(a.T, b.T)
    return one.tolist(), two.tolist(), three.tolist()


print(main(inp(), inp(), inp()))
""")
_add("performance_numpy.simplify_matmul_transposes", "vector-operand", _NP + """
def main(p, q, r):
    a = np.array([[p, 1], [q, r]], dtype=object)
    v = np.array([p, r], dtype=object)
    return np.matmul(a.T, v.T).T.tolist(), np.matmul(v.T, a.T).T.tolist()


print(main(inp(), inp(), inp()))
""")
_add("performance_numpy.simplify_matmul_transposes", "zip-star-transpose", _NP + """
def main(p, q, r):
    a = np.array([[p, 1], [q, r]], dtype=object)
    b = np.array([[1, p], [q, 2]], dtype=object)
    rows = [list(row) for row in zip(*np.matmul(a.T, b.T))]
    return rows


print(main(inp(), inp(), inp()))
""")
_add("performance_numpy.simplify_matmul_transposes", "numpy-alias-and-three-args", """import numpy


def main(p, q, r):
    a = numpy.array([[p, 1], [q, r]], dtype=object)
    b = numpy.array([[1, p], [q, 2]], dtype=object)
    out = numpy.empty((2, 2), dtype=object)
    numpy.matmul(a.T, b.T, out).T
    return numpy.matmul(a.T, b.T).T.tolist(), out.tolist()


print(main(inp(), inp(), inp()))
""")
_add("performance_numpy.replace_implicit_matmul", "triple-loop-zeros", _NP + """
def main(p, q, r):
    a = np.array([[p, 1, q], [q, r, 2]], dtype=object)
    b = np.array([[1, p], [q, 2], [r, r]], dtype=object)
    c = np.zeros((2, 2), dtype=object)
    for i in range(len(a)):
        for j in range(len(b[0])):
            for k in range(len(b)):
                c[i][j] += a[i][k] * b[k][j]
    return c.tolist()


print(main(inp(), inp(), inp()))
""")
_add("performance_numpy.replace_implicit_matmul", "triple-loop-accumulates-onto-nonzero", _NP + """
def main(p, q, r):
    a = np.array([[p, 1], [q, r]], dtype=object)
    b = np.array([[1, p], [q, 2]], dtype=object)
    c = np.array([[r, 0], [0, 1]], dtype=object)
    for i in range(len(a)):
        for j in range(len(b[0])):
            for k in range(len(b)):
                c[i][j] += a[i][k] * b[k][j]
    return c.tolist()


print(main(inp(), inp(), inp()))
""")
_add("performance_numpy.replace_implicit_matmul", "triple-loop-nested-lists", _NP + """
def main(p, q, r):
    a = [[p, 1], [q, r]]
    b = [[1, p], [q, 2]]
    c = [[0, 0], [0, 0]]
    for i in range(len(a)):
        for j in range(len(b[0])):
            for k in range(len(b)):
                c[i][j] += a[i][k] * b[k][j]
    return [list(row) for row in c]


print(main(inp(), inp(), inp()))
""")
_add("performance_numpy.replace_implicit_matmul", "triple-loop-alias-of-result", _NP + """
def main(p, q, r):
    a = np.array([[p, 1], [q, r]], dtype=object)
    b = np.array([[1, p], [q, 2]], dtype=object)
    c = np.zeros((2, 2), dtype=object)
    view = c
    for i in range(len(a)):
        for j in range(len(b[0])):
            for k in range(len(b)):
                c[i][j] += a[i][k] * b[k][j]
    return view.tolist()


print(main(inp(), inp(), inp()))
""")
_add("performance_numpy.replace_implicit_matmul", "triple-loop-variables-read-afterwards", _NP + """
def main(p, q, r):
    a = np.array([[p, 1], [q, r]], dtype=object)
    b = np.array([[1, p], [q, 2]], dtype=object)
    c = np.zeros((2, 2), dtype=object)
    for i in range(len(a)):
        for j in range(len(b[0])):
            for k in range(len(b)):
                c[i][j] += a[i][k] * b[k][j]
    return c.tolist(), i, j, k


print(main(inp(), inp(), inp()))
""")
_add("performance_numpy.replace_implicit_matmul", "comprehension-sum", _NP + """
def main(p, q, r):
    a = np.array([[p, 1, q], [q, r, 2]], dtype=object)
    b = np.array([[1, p], [q, 2], [r, r]], dtype=object)
    c = [[sum(a[i][k] * b[k][j] for k in range(len(b))) for j in range(len(b[0]))] for i in range(len(a))]
    return [list(row) for row in c]


print(main(inp(), inp(), inp()))
""")
_add("performance_numpy.replace_implicit_matmul", "dot-rows-by-rows", _NP + """
def main(p, q, r):
    a = np.array([[p, 1, q], [q, r, 2]], dtype=object)
    b = np.array([[1, p, 0], [q, 2, r]], dtype=object)
    m = [[np.dot(x, y) for x in a] for y in b]
    return [list(row) for row in m]


print(main(inp(), inp(), inp()))
""")
_add("performance_numpy.replace_implicit_matmul", "dot-cols-by-cols", _NP + """
def main(p, q, r):
    a = np.array([[p, 1, q], [q, r, 2]], dtype=object)
    b = np.array([[1, p, 0], [q, 2, r]], dtype=object)
    m = [[np.dot(x, y) for x in a.T] for y in b.T]
    return [list(row) for row in m]


print(main(inp(), inp(), inp()))
""")
_add("performance_numpy.replace_implicit_matmul", "dot-cols-by-triple-transpose", _NP + """
def main(p, q, r):
    a = np.array([[p, 1, q], [q, r, 2]], dtype=object)
    b = np.array([[1, p, 0], [q, 2, r]], dtype=object)
    m = [[np.dot(x, y) for x in a.T] for y in b.T.T.T]
    return [list(row) for row in m]


print(main(inp(), inp(), inp()))
""")
_add("performance_numpy.replace_implicit_matmul", "dot-rows-by-double-transpose", _NP + """
def main(p, q, r):
    a = np.array([[p, 1, q], [q, r, 2]], dtype=object)
    b = np.array([[1, p, 0], [q, 2, r]], dtype=object)
    m = [[np.dot(x, y) for x in a] for y in b.T.T]
    return [list(row) for row in m]


print(main(inp(), inp(), inp()))
""")
_add("performance_numpy.replace_implicit_matmul", "dot-square-rows-by-rows", _NP + """
def main(p, q, r):
    a = np.array([[p, 1], [q, r]], dtype=object)
    b = np.array([[1, p], [q, 2]], dtype=object)
    m = [[np.dot(x, y) for x in a] for y in b]
    return [list(row) for row in m]


print(main(inp(), inp(), inp()))
""")
_add("performance_numpy.replace_implicit_matmul", "dot-square-rows-by-cols", _NP + """
def main(p, q, r):
    a = np.array([[p, 1], [q, r]], dtype=object)
    b = np.array([[1, p], [q, 2]], dtype=object)
    m = [[np.dot(x, y) for x in a] for y in b.T]
    return [list(row) for row in m]


print(main(inp(), inp(), inp()))
""")
_add("performance_numpy.replace_implicit_matmul", "dot-square-cols-by-rows", _NP + """
def main(p, q, r):
    a = np.array([[p, 1], [q, r]], dtype=object)
    b = np.array([[1, p], [q, 2]], dtype=object)
    m = [[np.dot(x, y) for x in a.T] for y in b]
    return [list(row) for row in m]


print(main(inp(), inp(), inp()))
""")
_add("performance_numpy.replace_implicit_matmul", "dot-rect-rows-by-cols", _NP + """
def main(p, q, r):
    a = np.array([[p, 1, q], [q, r, 2]], dtype=object)
    c = np.array([[1, p], [q, 2], [r, 0]], dtype=object)
    m = [[np.dot(x, y) for x in a] for y in c.T]
    return [list(row) for row in m]


print(main(inp(), inp(), inp()))
""")
_add("performance_numpy.replace_implicit_matmul", "dot-rect-cols-by-rows", _NP + """
def main(p, q, r):
    a = np.array([[p, 1, q], [q, r, 2]], dtype=object)
    c = np.array([[1, p], [q, 2], [r, 0]], dtype=object)
    m = [[np.dot(x, y) for x in a.T] for y in c]
    return [list(row) for row in m]


print(main(inp(), inp(), inp()))
""")
_add("performance_numpy.replace_implicit_matmul", "index-b-cols-a-rows", _NP + """
def main(p, q, r):
    a = np.array([[p, 1, q], [q, r, 2]], dtype=object)
    b = np.array([[1, p], [q, 2], [r, r]], dtype=object)
    c = np.array([[1, q, 0], [p, 2, r], [0, 1, 1], [q, q, 1]], dtype=object)
    d = np.array([[1, p, 0, 1], [r, 2, q, 0], [q, 1, 1, p]], dtype=object)
    m = np.array([[np.dot(b[:, bi], a[ai, :]) for bi in range(b.shape[1])] for ai in range(a.shape[0])])
    return m.tolist()


print(main(inp(), inp(), inp()))
""")
_add("performance_numpy.replace_implicit_matmul", "index-c-rows-a-rows", _NP + """
def main(p, q, r):
    a = np.array([[p, 1, q], [q, r, 2]], dtype=object)
    b = np.array([[1, p], [q, 2], [r, r]], dtype=object)
    c = np.array([[1, q, 0], [p, 2, r], [0, 1, 1], [q, q, 1]], dtype=object)
    d = np.array([[1, p, 0, 1], [r, 2, q, 0], [q, 1, 1, p]], dtype=object)
    m = np.array([[np.dot(c[ci, :], a[ai, :]) for ci in range(c.shape[0])] for ai in range(a.shape[0])])
    return m.tolist()


print(main(inp(), inp(), inp()))
""")
_add("performance_numpy.replace_implicit_matmul", "index-b-cols-d-cols", _NP + """
def main(p, q, r):
    a = np.array([[p, 1, q], [q, r, 2]], dtype=object)
    b = np.array([[1, p], [q, 2], [r, r]], dtype=object)
    c = np.array([[1, q, 0], [p, 2, r], [0, 1, 1], [q, q, 1]], dtype=object)
    d = np.array([[1, p, 0, 1], [r, 2, q, 0], [q, 1, 1, p]], dtype=object)
    m = np.array([[np.dot(b[:, bi], d[:, di]) for bi in range(b.shape[1])] for di in range(d.shape[1])])
    return m.tolist()


print(main(inp(), inp(), inp()))
""")
_add("performance_numpy.replace_implicit_matmul", "index-a-rows-b-cols", _NP + """
def main(p, q, r):
    a = np.array([[p, 1, q], [q, r, 2]], dtype=object)
    b = np.array([[1, p], [q, 2], [r, r]], dtype=object)
    c = np.array([[1, q, 0], [p, 2, r], [0, 1, 1], [q, q, 1]], dtype=object)
    d = np.array([[1, p, 0, 1], [r, 2, q, 0], [q, 1, 1, p]], dtype=object)
    m = np.array([[np.dot(a[ai, :], b[:, bi]) for ai in range(a.shape[0])] for bi in range(b.shape[1])])
    return m.tolist()


print(main(inp(), inp(), inp()))
""")


# ---- pandas rules: executed against the vendored reference shim shims/pandas.py (pandas itself is not available in
# this sandbox); frames are small dicts of lists whose entries are run-time inputs
_PD = "import pandas as pd\n\n\n"
_add("performance_pandas.replace_loc_at_iloc_iat", "frame-two-keys", _PD + """
def main(p, q):
    df = pd.DataFrame({"a": [p, q, 3], "b": [q, 7000, p]})
    return df.loc[1, "b"], df.iloc[2, 0], df.loc[0, "a"] + df.iloc[-1, -1]


print(main(inp(), inp()))
""")
_add("performance_pandas.replace_loc_at_iloc_iat", "frame-assignment", _PD + """
def main(p, q):
    df = pd.DataFrame({"a": [p, q, 3], "b": [q, 2, p]})
    df.loc[1, "b"] = p + 10
    df.iloc[0, 0] = q - 10
    df.loc[2, "a"] += 1
    return df.to_dict()


print(main(inp(), inp()))
""")
_add("performance_pandas.replace_loc_at_iloc_iat", "labelled-index", _PD + """
def main(p, q):
    df = pd.DataFrame({"a": [p, q, 3], "b": [q, 2, p]}, index=["x", "y", "z"])
    return df.loc["y", "a"], df.iloc[1, 1], df.loc["z", "b"]


print(main(inp(), inp()))
""")
_add("performance_pandas.replace_loc_at_iloc_iat", "series-one-key", _PD + """
def main(p, q):
    s = pd.Series([p, q, 3], index=[10, 20, 30])
    return s.loc[20], s.iloc[0], s.iloc[-1] + s.loc[10]


print(main(inp(), inp()))
""")
_add("performance_pandas.replace_loc_at_iloc_iat", "frame-one-key-gives-row", _PD + """
def main(p, q):
    df = pd.DataFrame({"a": [p, q, 3], "b": [q, 2, p]})
    return df.loc[1].tolist(), df.iloc[0].tolist()


print(main(inp(), inp()))
""")
_add("performance_pandas.replace_loc_at_iloc_iat", "variable-and-slice-keys-untouched", _PD + """
def main(p, q):
    df = pd.DataFrame({"a": [p, q, 3], "b": [q, 2, p]})
    i = 1
    col = "b"
    return df.loc[i, col], df.iloc[i, 0], df.loc[-1 + 1, "a"]


print(main(inp(), inp()))
""")
_add("performance_pandas.replace_loc_at_iloc_iat", "missing-label", _PD + """
def main(p, q):
    df = pd.DataFrame({"a": [p, q], "b": [q, 2]})
    try:
        return df.loc[5, "a"]
    except KeyError:
        return "missing"


print(main(inp(), inp()))
""")
_add("performance_pandas.replace_iterrows_index", "for-loop", _PD + """
def main(p, q):
    df = pd.DataFrame({"a": [p, q, 3]}, index=[5, 6, 7000])
    out = []
    for i, _ in df.iterrows():
        out.append(i)
        out.append(df.loc[i, "a"])
    return out


print(main(inp(), inp()))
""")
_add("performance_pandas.replace_iterrows_index", "comprehension-and-row-used", _PD + """
def main(p, q):
    df = pd.DataFrame({"a": [p, q, 3]}, index=["x", "y", "z"])
    labels = [i for i, _ in df.iterrows()]
    pairs = [(i, row["a"]) for i, row in df.iterrows()]
    return labels, pairs


print(main(inp(), inp()))
""")
_add("performance_pandas.replace_iterrows_index", "frame-grows-in-loop", _PD + """
def main(p, q):
    df = pd.DataFrame({"a": [p, q, 3]})
    seen = []
    for i, _ in df.iterrows():
        seen.append(i)
        df.loc[i, "a"] = 0
    return seen, df.to_dict()


print(main(inp(), inp()))
""")
_add("performance_pandas.replace_iterrows_itertuples", "column-by-name", _PD + """
def main(p, q):
    df = pd.DataFrame({"a": [p, q, 3], "b": [q, 2, p]})
    total = 0
    for _, row in df.iterrows():
        total += row["a"] * row["b"]
    return total


print(main(inp(), inp()))
""")
_add("performance_pandas.replace_iterrows_itertuples", "at-and-iat", _PD + """
def main(p, q):
    df = pd.DataFrame({"a": [p, q, 3], "b": [q, 2, p]})
    out = []
    for _, row in df.iterrows():
        out.append(row.at["b"] - row.iat[0])
        out.append(row.iat[1])
    return out


print(main(inp(), inp()))
""")
_add("performance_pandas.replace_iterrows_itertuples", "negative-iat", _PD + """
def main(p, q):
    df = pd.DataFrame({"a": [p, q, 3], "b": [q, 2, p]})
    out = []
    for _, row in df.iterrows():
        out.append(row.iat[-1])
    return out


print(main(inp(), inp()))
""")
_add("performance_pandas.replace_iterrows_itertuples", "row-modified-or-passed-on", _PD + """
def show(row):
    return row.tolist()


def main(p, q):
    df = pd.DataFrame({"a": [p, q, 3], "b": [q, 2, p]})
    out = []
    for _, row in df.iterrows():
        row["a"] = 0
        out.append(row["b"])
    for _, row in df.iterrows():
        out.append(show(row))
    for _, row in df.iterrows():
        key = "a"
        out.append(row[key])
    return out


print(main(inp(), inp()))
""")
_add("performance_pandas.replace_iterrows_itertuples", "underscore-column", _PD + """
def main(p, q):
    df = pd.DataFrame({"_hidden": [p, q], "b": [q, 2]})
    out = []
    for _, row in df.iterrows():
        out.append(row["_hidden"] + row["b"])
    return out


print(main(inp(), inp()))
""")
_add("performance_pandas.replace_iterrows_itertuples", "two-word-column", _PD + """
def main(p, q):
    df = pd.DataFrame({"two words": [p, q], "b": [q, 2]})
    out = []
    for _, row in df.iterrows():
        out.append(row["two words"] + row["b"])
    return out


print(main(inp(), inp()))
""")
_add("performance_pandas.replace_iterrows_itertuples", "keyword-column", _PD + """
def main(p, q):
    df = pd.DataFrame({"class": [p, q], "b": [q, 2]})
    out = []
    for _, row in df.iterrows():
        out.append(row["class"] + row["b"])
    return out


print(main(inp(), inp()))
""")
_add("performance_pandas.replace_iterrows_itertuples", "digit-column", _PD + """
def main(p, q):
    df = pd.DataFrame({"2nd": [p, q], "b": [q, 2]})
    out = []
    for _, row in df.iterrows():
        out.append(row["2nd"] + row["b"])
    return out


print(main(inp(), inp()))
""")
_add("performance_pandas.replace_iterrows_itertuples", "column-named-Index", _PD + """
def main(p, q):
    df = pd.DataFrame({"Index": [p, q], "b": [q, 2]}, index=[7, 8])
    out = []
    for _, row in df.iterrows():
        out.append(row["Index"])
    return out


print(main(inp(), inp()))
""")
_add("performance_pandas.replace_iterrows_itertuples", "column-named-count", _PD + """
def main(p, q):
    df = pd.DataFrame({"count": [p, q], "b": [q, 2]}, index=[7, 8])
    out = []
    for _, row in df.iterrows():
        out.append(row["count"])
    return out


print(main(inp(), inp()))
""")
_add("performance_pandas.replace_iterrows_itertuples", "row-name-used-after-loop-and-else", _PD + """
def main(p, q):
    df = pd.DataFrame({"a": [p, q, 3]})
    total = 0
    for _, row in df.iterrows():
        if row["a"] > 2:
            break
        total += row["a"]
    else:
        total += 100
    return total, row["a"]


print(main(inp(), inp()))
""")


def skeletons():
    out = []
    for rule in sorted(P):
        for vid, body, tape in P[rule]:
            text = prelude(tape) + body.lstrip("\n")
            out.append(Skeleton("rulefam/%s/%s" % (rule.split(".")[-1], vid), text, tape=tape, fuel=600,
                                meta={"rule": "rule:" + rule, "first_line": prelude(tape).count("\n") + 1}))
    return out


# ---- string literals that the text-level layout stages (tab expansion, trailing blanks, blank-line limiting, line
# wrapping) must leave alone; used by C01 (pipeline) only
LAYOUT = {
    "tab-in-string": 'x = "a\tb"\nprint(x, inp())\n',
    "tab-in-bytes-and-raw": 'x = b"a\tb"\ny = r"c\td"\nprint(x, y, inp())\n',
    "trailing-blanks-in-multiline": 'x = """line1   \nline2 \t\nline3"""\nprint(x, inp())\n',
    "blank-lines-in-multiline": 'x = """a\n\n\n\n\nb\n"""\nprint(x, inp())\n',
    "blank-lines-in-function-string": 'def main(v):\n    text = """a\n\n\n\nb   \n    c"""\n    return text, v\n\n\nprint(main(inp()))\n',
    "multiline-fstring": 'def main(v):\n    return f"""v={v}   \n\n\n\n\tend"""\n\n\nprint(main(inp()))\n',
    "tab-indented-code-with-tab-string": 'def main(v):\n\tx = "a\tb"\n\tif v > 0:\n\t\treturn x, v\n\treturn x\n\n\nprint(main(inp()))\n',
    "string-at-end-of-file": 'print(inp())\nx = """tail\n\n\n\n"""\nprint(x)',
    "long-line-with-tabs-in-string": 'def main(v):\n    return ["aaaaaaaaaaaaaaaaaaaa\tbbbbbbbbbbbbbbbbbbbbbbbbb", "cccccccccccccccccccccccc\tdddddddddddddddddddddd", "eeeeeeeeeeeeeeeeeee\tffffffffffffffffff", v]\n\n\nprint(main(inp()))\n',
    "deep-indent-in-multiline": 'BANNER = """top\n          deep line\n  shallow\n"""\nprint(BANNER, inp())\n',
    "deep-indent-in-multiline-in-function": 'def main(v):\n    text = """top\n                deep line\n  shallow\n        """\n    return [text, v]\n\n\nprint(main(inp()))\n',
    "closing-brackets-inside-multiline": 'DATA = """[\n    {\n        "k": 1\n    }\n]\n"""\nprint(DATA, inp())\n',
    "continuation-lines": 'x = "a" \\\n    "b\tc"\ny = ("d   "\n     "e")\nprint(x, y, inp())\n',
}


def layout_skeletons():
    return [Skeleton("layout/%s" % k, prelude(2) + body, tape=2, fuel=300, meta={"rule": None, "first_line": prelude(2).count("\n") + 1})
            for k, body in sorted(LAYOUT.items())]


# ---- layouts and constructs that are tricky for the rules that edit text directly (imports, spacing, duplicate
# functions, constants): used by the validity / totality / purity / convergence pools (always, in both tiers)
TRICKY = [
    ("fixes.sort_imports", "local-import-then-col0-string", 'def main(v):\n    import json\n    text = """\ncolumn zero\n"""\n    return json.dumps(v), text\n\n\nprint(main(inp()))\n'),
    ("fixes.sort_imports", "local-import-then-col0-bracket", 'def main(v):\n    import json\n    data = [\n        v,\n]\n    return json.dumps(data)\n\n\nprint(main(inp()))\n'),
    ("fixes.sort_imports", "local-import-no-blank-line", 'def main(v):\n    import json\n    import os\n    x = v\n    return json.dumps(x), os.sep\n\n\nprint(main(inp()))\n'),
    ("fixes.sort_imports", "import-in-if-block", 'if inp() > -9:\n    import json\n    x = """\nzero\n"""\nelse:\n    json = None\nprint(json is not None)\n'),
    ("fixes.add_missing_imports", "future-parenthesised", 'from __future__ import (\n    annotations,\n)\n\nprint(os.sep, inp())\n'),
    ("fixes.add_missing_imports", "formfeed-in-string", 'x = "a\x0cb"\nprint(os.sep, x, inp())\n'),
    ("fixes.add_missing_imports", "docstring-and-future", '"""doc"""\nfrom __future__ import annotations\n\nprint(os.sep, inp())\n'),
    ("fixes.add_missing_imports", "parenthesised-docstring", '(\n    "first part of the module docstring, "\n    "second part"\n)\n\nprint(os.sep, inp())\n'),
    ("fixes.add_missing_imports", "parenthesised-docstring-then-future", '(\n    "doc"\n)\nfrom __future__ import annotations\n\nprint(os.sep, inp())\n'),
    ("fixes.add_missing_imports", "docstring-with-trailing-comment-lines", '"""doc"""  # comment\n# another comment\n\n\nprint(os.sep, inp())\n'),
    ("fixes.add_missing_imports", "docstring-semicolon-statement", '"""doc"""; x = 1\nprint(os.sep, x, inp())\n'),
    ("fixes.add_missing_imports", "docstring-backslash-continuation", '"""doc""" \\\n    .strip()\nprint(os.sep, inp())\n'),
    ("fixes.add_missing_imports", "only-a-docstring-then-code-on-last-line", '"""doc"""\nprint(os.sep, inp())'),
    ("fixes.add_missing_imports", "shebang-and-comment", '#!/usr/bin/env python3\n# comment\nprint(os.sep, inp())\n'),
    ("fixes.move_imports_to_toplevel", "toplevel-from-import-last-line", 'def main(v):\n    import os\n    return os.sep, v\n\n\nprint(main(inp()))\nfrom os import sep'),
    ("fixes.move_imports_to_toplevel", "import-in-function-and-class", 'class A:\n    import os\n\n    def m(self, v):\n        import os.path\n        return os.path.sep, v\n\n\nprint(A().m(inp()))\n'),
    ("fixes.remove_duplicate_functions", "reference-on-last-line-of-duplicate", 'def first_function(a):\n    return a + 1\n\n\ndef f(a):\n    return a + 1\n\n\ndef g(v): return first_function(v) + f(v)\n\n\nprint(g(inp()))\n'),
    ("fixes.remove_duplicate_functions", "recursive-duplicates", 'def long_name_one(a):\n    return long_name_one(a - 1) if a > 0 else 0\n\n\ndef b(a):\n    return b(a - 1) if a > 0 else 0\n\n\nprint(long_name_one(inp()), b(inp()))\n'),
    ("fixes.simplify_collection_unpacks", "starred-dict-unpack", 'def main(a):\n    return [*{**a}], [*{1: 2}], {*{**a}}\n\n\nprint(main({1: inp()}))\n'),
    ("symbolic_math.simplify_math_iterators", "sum-of-odd-ranges", 'def main(v):\n    out = []\n    for f in (lambda: sum(range()), lambda: sum([1, "a"]), lambda: sum(range(3), 5), lambda: sum([])):\n        try:\n            out.append(f())\n        except TypeError:\n            out.append("TypeError")\n    return out, v\n\n\nprint(main(inp()))\n'),
    ("abstractions.overused_constant", "non-ascii-constant", 'def main(v):\n    return ["h\u00e9llo w\u00f6rld, long enough", "h\u00e9llo w\u00f6rld, long enough", "h\u00e9llo w\u00f6rld, long enough", "h\u00e9llo w\u00f6rld, long enough", "h\u00e9llo w\u00f6rld, long enough", v]\n\n\nprint(main(inp()))\n'),
    ("abstractions.overused_constant", "constant-in-default-and-decorator", 'def deco(text):\n    return lambda f: f\n\n\n@deco("a fairly long constant text")\ndef main(v, t="a fairly long constant text"):\n    return [t, "a fairly long constant text", "a fairly long constant text", "a fairly long constant text", v]\n\n\nprint(main(inp()))\n'),
    ("fixes.fix_line_lengths", "long-line-in-nested-block", 'def main(v):\n    if v > -9:\n        for i in range(1):\n            result = {"alpha": v + 1000000, "beta": v + 2000000, "gamma": v + 3000000, "delta": v + 4000000, "epsilon": v}\n    return result\n\n\nprint(main(inp()))\n'),
    ("fixes.fix_line_lengths", "long-elif-and-lambda", 'def main(v):\n    f = lambda aaaaaaaaaaaa, bbbbbbbbbbbbbb, cccccccccccccc, dddddddddddddd: aaaaaaaaaaaa + bbbbbbbbbbbbbb + cccccccccccccc + dddddddddddddd\n    if v > 100000000000 and v < 200000000000 and v != 150000000000 and v != 160000000000 and v != 170000000000:\n        return 1\n    elif v > 300000000000 and v < 400000000000 and v != 350000000000 and v != 360000000000 and v != 370000000000:\n        return 2\n    return f(v, 1, 2, 3)\n\n\nprint(main(inp()))\n'),
    ("fixes.fix_line_lengths", "backslash-adjacent-strings", "def main(x):\n    return join('''a''' \\\n        'b', x)\n\n\ndef join(a, b):\n    return a, b\n\n\nprint(main(inp()))\n"),
    ("fixes.fix_line_lengths", "backslash-adjacent-fstrings", "def main(x):\n    return join(f'a{x}' \\\n        f'b{x}', x)\n\n\ndef join(a, b):\n    return a, b\n\n\nprint(main(inp()))\n"),
    ("fixes.fix_line_lengths", "wrapped-single-quoted-fstrings-in-call", "def main(x):\n    if x < -5:\n        raise ValueError(f'negative value {x} '\n                         f'is not allowed')\n    return x\n\n\nprint(main(inp()))\n"),
    ("fixes.fix_line_lengths", "wrapped-strings-in-redundant-brackets", "def main(x):\n    return (f'value {x} '\n            f'and more')\n\n\nprint(main(inp()))\n"),
    ("abstractions.overused_constant", "module-docstring-and-future", '"""Module doc."""\nfrom __future__ import annotations\n\nimport os\n\nprint(["the quick brown fox jumps", "the quick brown fox jumps", "the quick brown fox jumps", "the quick brown fox jumps", "the quick brown fox jumps", os.sep], __doc__)\n'),
    ("fixes.implicit_dict_keys_values_items", "store-only-keys-loop-subscript", 'def main(tables, n):\n    for k in tables[n**2].keys():\n        tables[n**2][k] += 1\n    return tables\n\n\nprint(main({4: {1: inp()}}, 2))\n'),
    ("fixes.implicit_dict_keys_values_items", "store-only-keys-loop-assign", 'def main(tables, n):\n    for k in tables[n**2].keys():\n        tables[n**2][k] = 0\n    return tables\n\n\nprint(main({4: {1: inp()}}, 2))\n'),
    ("fixes.implicit_dict_keys_values_items", "store-only-keys-loop-slice", 'def main(rows, i):\n    for k in rows[i + 1 :][0].keys():\n        rows[i + 1 :][0][k] += 1\n    return rows\n\n\nprint(main([{}, {1: inp()}], 0))\n'),
    ("fixes.implicit_dict_keys_values_items", "store-only-keys-loop-del", 'def main(d):\n    for k in list(d.keys()):\n        del d[k]\n    for k in d.keys():\n        d[k] += 1\n    return d\n\n\nprint(main({1: inp()}))\n'),
    ("fixes.implicit_dict_keys_values_items", "keys-loop-read-and-store", 'def main(tables, n):\n    for k in tables[n**2].keys():\n        tables[n**2][k] = tables[n**2][k] + 1\n    return tables\n\n\nprint(main({4: {1: inp()}}, 2))\n'),
    ("fixes.implicit_dict_keys_values_items", "items-loop-unused-value", 'def main(tables, n):\n    out = []\n    for k, _ in tables[n**2].items():\n        out.append(k)\n    for _, v in tables[n**2].items():\n        out.append(v)\n    return out\n\n\nprint(main({4: {1: inp()}}, 2))\n'),
    ("fixes.deinterpolate_logging_args", "nested-format-spec", 'import logging\n\n\ndef main(v, w):\n    logging.debug(f"{v:>{w}}")\n    logging.log(10, f"{v:{w}.{w}f}")\n    logging.debug(f"{v:}")\n    logging.debug(f"{v!r:>10} {{literal}}")\n    return v\n\n\nprint(main(inp(), 3))\n'),
]


def tricky_skeletons():
    """Text-level skeletons (validity / totality / purity / convergence only look at the texts; the programs
    that need a missing import or start with a __future__ import are not executed anywhere)."""
    out = []
    for rule, vid, body in TRICKY:
        text = body if "__future__" in body or body.startswith(("#!", "(", '"""')) else prelude(3) + body
        out.append(Skeleton("tricky/%s/%s" % (rule.split(".")[-1], vid), text, tape=3, fuel=400,
                            meta={"rule": "rule:" + rule, "first_line": 0 if text is body else prelude(3).count("\n") + 1}))
    return out
