"""The shared skeleton pool (C01/C02/C03-e/C04-f/C05/C07/C09-c/C20-e): closed deterministic programs.

(1) the before-snippets of tests/unit/test_*.py, auto-closed: free names are typed from usage (called ->
    tape-backed function, iterated -> list of inputs, arithmetic -> input int), wrapped in `def main(...)`,
    with prints of every assigned variable and a call of every defined function;
(2) programs enumerated from a small typed statement grammar;
(3) the parametric literal-sensitive families of C16/C17 (symbolic literals).
All enumerations are deterministic; the seed only picks the quick-tier subset."""
from __future__ import annotations

import ast
import builtins
import collections
import glob
import os
import random
import textwrap

from . import families
from .common import REPO
from .pool import Skeleton, all_rules
from .symtv import prelude

_BUILT = set(dir(builtins))
SKIP_FILES = {
    # need numpy / pandas / the file system / importable packages (C18 territory) - listed as not exercised
    "implicit_dot", "implicit_matmul", "simplify_matrix_operations", "simplify_transposes", "replace_iterrows_index",
    "replace_iterrows_itertuples", "replace_loc_at_iloc_iat", "fix_starred_imports", "fix_reimported_names",
    "trace_origin", "add_missing_imports", "remove_unused_imports", "fix_duplicate_imports", "sort_imports",
    "fix_import_spacing", "move_imports_to_toplevel", "pattern_matching", "match_template", "literal_value",
    "has_side_effect", "hash_node", "is_blocking", "pattern_zeroormore_zeroorone_zeroormany", "ignore_comments",
    "missing_context_manager", "deinterpolate_logging_args", "sorted_heapq", "replace_subscript_looping",
}

HELPERS = '''def _show(v):
    if isinstance(v, (int, float, str, bool, list, tuple, dict, type(None))):
        return v
    if isinstance(v, (set, frozenset)):
        return sorted(v, key=repr)
    return "<object>"


'''


def rule_transform_for(test_name):
    """transform name for tests/unit/test_<name>.py, or None."""
    aliases = {"redundant_elses": "remove_redundant_else", "singleton_comparison": "singleton_eq_comparison",
               "unravel_classes": "remove_unused_self_cls", "align_variable-names_with_convention":
               "align_variable_names_with_convention", "abstractions": "create_abstractions",
               "simplify_if_control_flow": "simplify_if_control_flow"}
    name = aliases.get(test_name, test_name)
    for t, _multi in all_rules():
        if t.endswith("." + name):
            return t
    return None


def harvest():
    """[(test name, snippet text)] from the repository's own example inputs."""
    out = []
    for f in sorted(glob.glob(os.path.join(REPO, "tests", "unit", "test_*.py"))):
        name = os.path.basename(f)[5:-3]
        if name in SKIP_FILES:
            continue
        try:
            tree = ast.parse(open(f).read())
        except SyntaxError:
            continue
        k = 0
        for n in ast.walk(tree):
            if isinstance(n, ast.Tuple) and len(n.elts) == 2 and all(
                    isinstance(e, ast.Constant) and isinstance(e.value, str) for e in n.elts):
                out.append((name, k, textwrap.dedent(n.elts[0].value).strip() + "\n"))
                k += 1
    return out


def _usage(tree):
    loads, stores, called, iterated, subs = [], set(), set(), set(), set()
    attr = collections.defaultdict(set)
    for n in ast.walk(tree):
        if isinstance(n, ast.Name):
            if isinstance(n.ctx, (ast.Store, ast.Del)):
                stores.add(n.id)
            else:
                loads.append(n.id)
        if isinstance(n, (ast.FunctionDef, ast.ClassDef, ast.AsyncFunctionDef)):
            stores.add(n.name)
        if isinstance(n, ast.arg):
            stores.add(n.arg)
        if isinstance(n, (ast.Import, ast.ImportFrom)):
            for a in n.names:
                stores.add((a.asname or a.name).split(".")[0])
        if isinstance(n, ast.Call) and isinstance(n.func, ast.Name):
            called.add(n.func.id)
        if isinstance(n, (ast.For, ast.comprehension)) and isinstance(n.iter, ast.Name):
            iterated.add(n.iter.id)
        if isinstance(n, ast.Attribute) and isinstance(n.value, ast.Name):
            attr[n.value.id].add(n.attr)
        if isinstance(n, ast.Subscript) and isinstance(n.value, ast.Name):
            subs.add(n.value.id)
        if isinstance(n, ast.Starred) and isinstance(n.value, ast.Name):
            iterated.add(n.value.id)
    free = [x for x in dict.fromkeys(loads) if x not in _BUILT and x not in stores]
    return free, stores, called, iterated, attr, subs


LISTY = {"append", "extend", "sort", "index", "count", "insert", "pop", "reverse", "copy"}
SETTY = {"add", "union", "update", "discard", "intersection", "difference", "remove"}
DICTY = {"items", "keys", "values", "get", "setdefault"}


def close_snippet(name, k, snippet):
    """Closed program around a before-snippet, or None when it cannot be closed by the typing heuristic."""
    try:
        tree = ast.parse(snippet)
    except SyntaxError:
        return None
    if any(isinstance(n, (ast.Import, ast.ImportFrom, ast.AsyncFunctionDef, ast.Await, ast.Yield, ast.YieldFrom,
                          ast.Global, ast.Nonlocal, ast.With, ast.Try)) for n in ast.walk(tree)):
        return None
    src_l = snippet.lower()
    if any(w in src_l for w in ("np.", "pd.", "numpy", "pandas", "open(", "input(", "exit(", "os.", "sys.", "self.",
                                 "__", "logging", "logger", "lambda", "global", "@")):
        return None
    if "7000" in snippet or "9000" in snippet:
        return None
    free, stores, called, iterated, attr, subs = _usage(tree)
    if len(free) > 6:
        return None
    defs, tape = [], 0
    params = []
    for x in free:
        a = attr[x]
        if x in called:
            if a:
                return None
            defs.append("def %s(*args, **kwargs):\n    print(%r, *args)\n    return TAPE.pop() %% 3\n\n\n" % (x, x))
            tape += 3
        elif a and not (a <= (LISTY | SETTY | DICTY)):
            return None
        elif x in iterated or a & LISTY or (x in subs and not a & DICTY):
            params.append((x, "[inp(), inp(), 2]"))
            tape += 2
        elif a & SETTY:
            params.append((x, "{1, 2}"))
        elif a & DICTY:
            params.append((x, "{1: inp(), 2: 3}"))
            tape += 1
        else:
            params.append((x, "inp()"))
            tape += 1
    top_stores = []
    loop_targets = set()
    for n in ast.walk(tree):
        if isinstance(n, (ast.For, ast.comprehension)):
            loop_targets |= {t.id for t in ast.walk(n.target) if isinstance(t, ast.Name)}
    for n in tree.body:
        for t in ast.walk(n) if isinstance(n, (ast.Assign, ast.AugAssign, ast.AnnAssign, ast.For, ast.If, ast.While)) else []:
            if isinstance(t, ast.Name) and isinstance(t.ctx, ast.Store) and t.id not in top_stores:
                top_stores.append(t.id)
    # loop variables are observed only by the dedicated family `loopvar_skeletons` (a comprehension does not leak
    # its variable; the rules that build comprehensions do not look at later uses: known finding)
    top_stores = [v for v in top_stores if v not in loop_targets]
    has_return = any(isinstance(n, ast.Return) for n in ast.walk(tree)
                     if not any(isinstance(p, ast.FunctionDef) for p in [n]))
    toplevel_return = any(isinstance(n, ast.Return) for b in [tree.body] for s in b for n in _walk_no_defs(s))
    toplevel_loopctl = any(isinstance(n, (ast.Break, ast.Continue)) for s in tree.body for n in _walk_no_loops(s))
    if toplevel_loopctl:
        return None
    body = textwrap.indent(snippet, "    ")
    shows = "".join("    print(%r, _show(%s))\n" % (v, v) for v in sorted(top_stores) if not v.startswith("_"))
    calls = ""
    for n in tree.body:
        if isinstance(n, ast.FunctionDef) and not n.decorator_list and not n.args.kwonlyargs and not n.args.vararg \
                and not n.args.kwarg and len(n.args.args) <= 3 and not n.args.defaults:
            calls += "    print(%r, _show(%s(%s)))\n" % ("call " + n.name, n.name, ", ".join("inp()" for _ in n.args.args))
            tape += len(n.args.args)
    tape = min(tape + 2, 12)
    main = "def main(%s):\n%s%s%s    return None\n" % (", ".join(p for p, _ in params), body, shows, calls)
    driver = "\n\nprint(main(%s))\n" % ", ".join(v for _, v in params)
    pre = prelude(tape) + HELPERS + "".join(defs)
    text = pre + main + driver
    try:
        compile(text, "<closed>", "exec")
    except SyntaxError:
        return None
    first_line = pre.count("\n") + 1
    return Skeleton("harvest/%s/%d" % (name, k), text, tape=tape, fuel=600,
                    meta={"rule": rule_transform_for(name), "first_line": first_line, "test": name})


def _walk_no_defs(node):
    yield node
    for c in ast.iter_child_nodes(node):
        if isinstance(c, (ast.FunctionDef, ast.ClassDef, ast.Lambda)):
            continue
        yield from _walk_no_defs(c)


def _walk_no_loops(node):
    yield node
    for c in ast.iter_child_nodes(node):
        if isinstance(c, (ast.For, ast.While, ast.FunctionDef, ast.ClassDef)):
            continue
        yield from _walk_no_loops(c)


_HARVEST_CACHE = None


def harvested_skeletons():
    global _HARVEST_CACHE
    if _HARVEST_CACHE is None:
        out = []
        for name, k, snip in harvest():
            sk = close_snippet(name, k, snip)
            if sk is not None:
                out.append(sk)
        _HARVEST_CACHE = out
    return list(_HARVEST_CACHE)


# ---------------------------------------------------------------------------------------------------
# (2) typed statement grammar: int variables a, b; list xs; accumulator acc; conditions from inputs / tape

G_SIMPLE = [
    "a = a + 1", "b = a * 2", "a += b", "acc.append(a)", "acc.append(b + 7000)", "xs.append(a)", "print(\"p\", a)",
    "effect(a)", "b = effect(b)", "acc = acc + [a]", "a, b = b, a", "xs = [x for x in xs if x > 7000 - 7001]",
    "b = len(xs)", "a = max(a, b)", "acc.extend(xs)", "b = sum(xs)", "s = set()", "d = {}", "d[a] = b", "pass",
    "a = 0 if a else 1", "unused = a + b", "b = a if a > 0 else -a",
]
G_TESTS = ["a > 0", "a > b", "cond()", "not a", "a == 1 or b == 1", "a > 0 and a >= 1", "xs", "7000 > 7001", "True", "a in xs"]
G_LOOPS = ["for i in range(2)", "for i in xs", "for i in range(a)", "for i, x in enumerate(xs)", "while a > 0 and a < 3"]


def _grammar_bodies(rnd, n, depth=2):
    def stmt(d):
        r = rnd.random()
        if d <= 0 or r < 0.5:
            return rnd.choice(G_SIMPLE)
        if r < 0.75:
            t = rnd.choice(G_TESTS)
            b1 = block(d - 1, 2)
            if rnd.random() < 0.6:
                b2 = block(d - 1, 2)
                return "if %s:\n%s\nelse:\n%s" % (t, textwrap.indent(b1, "    "), textwrap.indent(b2, "    "))
            return "if %s:\n%s" % (t, textwrap.indent(b1, "    "))
        lp = rnd.choice(G_LOOPS)
        b = block(d - 1, 2)
        tail = rnd.choice(["", "", "\n    if i == 1:\n        break", "\n    if a > 5:\n        continue\n    acc.append(i)"]) \
            if not lp.startswith("while") else "\n    a += 1"
        body = textwrap.indent(b, "    ") + tail
        if lp.startswith("while"):
            body = textwrap.indent(b.replace("a = 0 if a else 1", "pass").replace("a, b = b, a", "pass"), "    ") + tail
        return "%s:\n%s" % (lp, body)

    def block(d, maxlen):
        return "\n".join(stmt(d) for _ in range(rnd.randint(1, maxlen)))

    for _ in range(n):
        yield block(depth, 4)


GRAMMAR_N = 400
_GRAMMAR_CACHE = None


def grammar_skeletons(n=None, seed=0):
    """A fixed enumeration of GRAMMAR_N programs (independent of the seed); `n` takes a seed-chosen subset."""
    global _GRAMMAR_CACHE
    if _GRAMMAR_CACHE is None:
        _GRAMMAR_CACHE = _grammar_all()
    if n is None or n >= len(_GRAMMAR_CACHE):
        return list(_GRAMMAR_CACHE)
    return random.Random(seed).sample(_GRAMMAR_CACHE, n)


def _grammar_all():
    rnd = random.Random(1000)
    out = []
    for i, body in enumerate(_grammar_bodies(rnd, GRAMMAR_N)):
        text = (prelude(10) + HELPERS
                + "def main(a, b, xs):\n    acc = []\n    d = {}\n    s = set()\n%s\n    print(\"a\", a)\n    print(\"b\", b)\n"
                  "    print(\"xs\", xs)\n    print(\"acc\", acc)\n    print(\"d\", d)\n    return acc\n\n\n"
                  "print(main(inp(), inp(), [inp(), 1]))\n" % textwrap.indent(body, "    "))
        try:
            compile(text, "<g>", "exec")
        except SyntaxError:
            continue
        pre_lines = (prelude(10) + HELPERS).count("\n") + 1
        out.append(Skeleton("grammar/%d" % i, text, tape=10, fuel=500, meta={"rule": None, "first_line": pre_lines}))
    return out


# ---------------------------------------------------------------------------------------------------


def loopvar_skeletons():
    """The loop variable is used after the loop."""
    bodies = {
        "list": "x = []\nfor i in range(n):\n    x.append(i)\nprint(x, i)",
        "set": "x = set()\nfor i in range(n):\n    x.add(i)\nprint(sorted(x), i)",
        "dict": "x = {}\nfor i in range(n):\n    x[i] = 1\nprint(x, i)",
        "sum": "x = 0\nfor i in range(n):\n    x += i\nprint(x, i)",
    }
    for k, b in bodies.items():
        text = prelude(2) + "def main(n):\n%s\n\n\nmain(inp() + 4)\n" % textwrap.indent(b, "    ")
        yield Skeleton("loopvar/%s" % k, text, tape=2, meta={"rule": None, "first_line": 0})


def scheduled_rules():
    return [t for t, _m in all_rules()]


def pool_skeletons(tier, seed):
    """The pool used by the degenerate pool obligations (quick: a seed-chosen subset)."""
    rnd = random.Random(seed)
    hv = harvested_skeletons()
    gr = grammar_skeletons(30 if tier == "quick" else None, seed)
    lit = list(families.c16_skeletons("quick"))
    c17 = list(families.c17_two_comparisons()) + list(families.c17_constrained_range("quick"))
    for sk in lit + c17:
        sk.meta.setdefault("rule", None)
        sk.meta.setdefault("first_line", max(0, sk.text.count("\n") - 12))
    from . import rulefam  # hand-written per-rule programs and string-layout programs (DESIGN 12, round 3)

    fam = rulefam.skeletons()
    lay = rulefam.layout_skeletons() + rulefam.tricky_skeletons()
    if tier == "quick":
        return rnd.sample(hv, min(len(hv), 90)) + gr + rnd.sample(lit, 25) + rnd.sample(c17, 20) + rnd.sample(fam, 40) + lay
    return hv + gr + lit[::3] + c17[::3] + fam + lay


# ---------------------------------------------------------------------------------------------------
# rules that edit the text directly (alter_code / remove_nodes / _insert_nodes) instead of going through the
# scheduler: text-only skeletons for the opt-out obligations of C20 (and validity / totality of C03 / C04)

DIRECT_EDIT = {
    "fixes.move_before_loop": [
        "def main(xs):\n    out = []\n    for x in xs:\n        y = 10\n        out.append(x + y)\n    print(out)\n\n\nmain([1, 2])\n",
        "def main(xs):\n    total = 0\n    while total < 7000:\n        step = 7001\n        total += step\n    return total\n\n\nprint(main([1]))\n",
    ],
    "fixes.early_continue": [
        "def main(n):\n    for i in range(n):\n        if i > 7000:\n            print(1, i)\n            print(2, i)\n            print(3, i)\n"
        "            print(4, i)\n            print(5, i)\n            print(6, i)\n\n\nmain(3)\n",
    ],
    "fixes.swap_if_else": [
        "def main(a):\n    if a > 7000:\n        print(1)\n        print(2)\n        print(3)\n        print(4)\n        return 1\n    return 2\n\n\nprint(main(3))\n",
        "def main(a):\n    if a > 7000:\n        pass\n    else:\n        print(2)\n    return 2\n\n\nprint(main(3))\n",
    ],
    "abstractions.simplify_if_control_flow": [
        "def main(a, b):\n    if a:\n        if b:\n            x = 1\n        else:\n            x = 2\n    else:\n        if b:\n            x = 1\n        else:\n            x = 3\n    return x\n\n\nprint(main(1, 0))\n",
    ],
    "abstractions.overused_constant": [
        "def main():\n    a = 'a long constant string'\n    b = 'a long constant string'\n    c = 'a long constant string'\n    d = 'a long constant string'\n"
        "    e = 'a long constant string'\n    return a + b + c + d + e\n\n\nprint(main())\n",
    ],
    "fixes.remove_duplicate_functions": [
        "def f(a):\n    return a + 7000\n\n\ndef g(b):\n    return b + 7000\n\n\nprint(f(1), g(2))\n",
    ],
    "fixes.fix_duplicate_imports": [
        "import os\nimport sys\nimport os\n\nprint(os.sep, sys.argv)\n",
        "from os import sep\nfrom os import path\nfrom os import sep\n\nprint(sep, path)\n",
        "import os, sys\n\nprint(os.sep, sys.argv)\n",
    ],
    "fixes.sort_imports": ["import sys\nimport os\nimport ast\n\nprint(os.sep, sys.argv, ast)\n"],
    "fixes.move_imports_to_toplevel": ["def main():\n    import os\n    return os.sep\n\n\nprint(main())\n"],
    "fixes.remove_unused_imports": ["import os\nimport sys\n\nprint(os.sep)\n"],
    "fixes.breakout_common_code_in_ifs": [
        "def main(x):\n    if x:\n        a = 1\n        print(a)\n    else:\n        a = 2\n        print(a)\n    return a\n\n\nprint(main(1))\n",
        "def main(x):\n    if x:\n        print(0)\n        a = 1\n    else:\n        print(0)\n        a = 2\n    return a\n\n\nprint(main(1))\n",
    ],
    "fixes.delete_unreachable_code": ["def main(x):\n    return x\n    print(7000)\n    print(2)\n\n\nprint(main(1))\n"],
    "fixes.remove_dead_ifs": ["def main(x):\n    if 7000 > 7001:\n        print(1)\n    else:\n        print(2)\n    return x\n\n\nprint(main(1))\n"],
    "fixes.delete_pointless_statements": ["def main(x):\n    x + 7000\n    [1, 2]\n    return x\n\n\nprint(main(1))\n"],
    "fixes.fix_if_return": ["def main(x):\n    if x > 7000:\n        return True\n    return False\n\n\nprint(main(1))\n"],
    "fixes.replace_for_loops_with_set_list_comp": ["def main(n):\n    out = []\n    for i in range(n):\n        out.append(i + 7000)\n    return out\n\n\nprint(main(3))\n"],
    "fixes.undefine_unused_variables": ["def main(n):\n    unused = n + 7000\n    other = 2\n    return n\n\n\nprint(main(3))\n"],
    "fixes.align_variable_names_with_convention": ["def main(n):\n    someVar = n + 7000\n    return someVar\n\n\nprint(main(3))\n"],
    "object_oriented.remove_unused_self_cls": ["class A:\n    def m(self, x):\n        return x + 7000\n\n\nprint(A().m(1))\n"],
    "fixes.simplify_assign_immediate_return": ["def main(n):\n    out = n + 7000\n    return out\n\n\nprint(main(3))\n"],
}


def direct_edit_skeletons():
    out = []
    for rule, texts in DIRECT_EDIT.items():
        for k, t in enumerate(texts):
            out.append(Skeleton("de/%s/%d" % (rule, k), t, meta={"rule": "rule:" + rule, "first_line": 0}))
    return out


# ---------------------------------------------------------------------------------------------------
# rule patterns at every position of a file (C04: statements at end of file, first, only, nested)

EOF_SNIPS = [
    "if x:\n    a = 1\n    c()\nelse:\n    a = 2\n    c()\n",
    "if x:\n    c()\n    a = 1\nelse:\n    c()\n    a = 2\n",
    "if 7000 > 7001:\n    a()\nelse:\n    b()\n",
    "if x:\n    y = True\nelse:\n    y = False\n",
    "for i in range(7000):\n    out.append(i)\n",
    "out = []\nfor i in range(7000):\n    out.append(i)\n",
    "while x:\n    y = 7000\n    x -= y\n",
    "for i in r:\n    if i > 7000:\n        a(1)\n        a(2)\n        a(3)\n        a(4)\n        a(5)\n        a(6)\n",
    "x = 7000 > 7001 and y\n",
    "y = [i for i in range(7000) if i > 7001]\n",
    "x == None\n",
    "if x:\n    pass\nelse:\n    b()\n",
    "if 1 / 0:\n    a()\n",
    "for i in 5:\n    a()\n",
    "z = f'{x!r:>{7000}}'\n",
    "x = lambda: 0\n",
    "assert x, 'm'\n",
    "try:\n    a()\nexcept E:\n    raise V()\n",
    "with open(p) as f:\n    d = f.read()\n",
    "f = open(p)\nd = f.read()\nf.close()\n",
    "import os, sys\n",
    "from os import *\n",
    "x = {**{1: 2}, **d}\n",
    "def g():\n    return 1\n\n\ndef h():\n    return 1\n",
    "class C:\n    def m(self):\n        return 7000\n",
    "x = a if a else b\n",
    "print(sorted(xs)[0])\n",
    "for k in d.keys():\n    print(d[k])\n",
    "x: int = 7000\n",
    "match x:\n    case 1:\n        a()\n    case _:\n        b()\n",
    "async def co():\n    await a()\n",
    "x = yield_ = (i async for i in a) if 0 else None\n",
    "global_ = [*a, *[1, 2]]\n",
    "x = y = z = 7000\n",
    "del x\n",
    "x = 1; y = 2\n",
    "@dec\ndef d1():\n    return 7000\n",
    "type X = int\n",
    # ill-typed constant expressions, unusual identifiers and layouts
    "if 7000 < 'a':\n    a()\n",
    "y = 7000 < 'a' and x\n",
    "z = [i for i in range(7000) if i < 'a']\n",
    'while None < 7000:\n    a()\n',
    "assert 7000 < 'a'\n",
    "y = 'a' - 7000 if x else 0\n",
    "if not 'a' < 7000:\n    a()\n",
    'y = x if 7000 in 5 else 1\n',
    'é = 7000\nb(é)\n',
    'naïveValue = 7000\nb(naïveValue)\n',
    'def café(x):\n    return x\n\n\nb(café(7000))\n',
    'class Ñandú:\n    pass\n',
    'if x:\n    a()\nelse :\n    b()\n',
    'if x :\n    a()\nelif  y :\n    b()\nelse:\n    pass\n',
    "import logging\nlogging.info(f'{x:<{y}}')\n",
    "import logging\nlogging.info(f'{x!r:>10} {y}')\n",
    "logger.log(7000, f'{x:{y}.{c}f}')\n",
    'lambda_ = lambda *a, **k: (a, k)\n',
    'x = [\n    7000,\n    7001,  # c\n]\n',
    "s = 'a\\\\b' 'c'\n",
    "s = b'\\x00' * 7000\n",
    "s = '''multi\nline'''\n",
    "f'{x=}'\n",
    'x = 0x10 + 0o7 + 0b1 + 1_000\n',
    'x = 7000 if x else 7001 if y else 7002\n',
    'for i in range(7000): pass\n',
    'if x: a()\nelse: b()\n',
    'while x: x -= 1\n',
    "x = 7000 == 'a'\n",
    'if 7000 != None:\n    a()\n',
    'y = [] < 7000 or x\n',
]


def eof_skeletons():
    out = []
    for i, snip in enumerate(EOF_SNIPS):
        variants = {
            "only": snip,
            "last": "q = 1\n" + snip,
            "first": snip + "q = 1\n",
            "nested": "def fn(x, a, b, c, out, r, y, d, p, xs):\n" + textwrap.indent(snip, "    "),
            "nested2": "class K:\n    def m(self, x, a, b, c, out, r, y, d, p, xs):\n" + textwrap.indent(snip, "        "),
        }
        for pos, text in variants.items():
            try:
                compile(text, "<eof>", "exec")
            except SyntaxError:
                continue
            out.append(Skeleton("eof/%d/%s" % (i, pos), text, meta={"rule": None, "first_line": 0}))
    return out


# ---------------------------------------------------------------------------------------------------
# if/else orientation family (C09: swap_if_else / remove_redundant_else / early_return must not ping-pong)

SWAP_BLOCKS = [
    "pass", "work(1)", "return 1", "raise E()", "work(1)\nwork(2)\nwork(3)\nwork(4)\nreturn 1",
    "work(1)\nwork(2)\nwork(3)\nwork(4)", "if a:\n    return 1\nelse:\n    return 2",
    "if a:\n    work(1)\nelse:\n    work(2)\nreturn 3", "if a:\n    if t:\n        return 1\n    return 2\nreturn 3",
    "x = 1\nreturn x", "for i in range(2):\n    work(i)", "if a:\n    work(1)",
]


def swap_skeletons():
    out = []
    pre = prelude(4) + "class E(Exception):\n    pass\n\n\ndef work(x):\n    print(\"work\", x)\n\n\n"
    k = 0
    for b in SWAP_BLOCKS:
        for o in SWAP_BLOCKS:
            k += 1
            for tail in ("return 0", ""):
                body = "if t:\n%s\nelse:\n%s\n%s" % (textwrap.indent(b, "    "), textwrap.indent(o, "    "), tail)
                text = pre + "def f(t, a):\n%s\n\n\nprint(f(inp(), inp()))\n" % textwrap.indent(body.rstrip("\n"), "    ")
                try:
                    compile(text, "<swap>", "exec")
                except SyntaxError:
                    continue
                out.append(Skeleton("swap/%d%s" % (k, "r" if tail else ""), text, tape=4, fuel=300,
                                    meta={"rule": "rule:fixes.swap_if_else", "first_line": pre.count("\n")}))
    return out
