"""Deterministic skeleton families (DESIGN section 4). Every generator yields pool.Skeleton objects;
VERIF_SEED only chooses which subset the quick tier runs."""
from __future__ import annotations

import itertools

from .pool import Skeleton
from .symtv import prelude

OPS = ["<", "<=", ">", ">=", "==", "!="]
BIG = 10**6

# driver arguments: any integer as the difference of two naturals
ARG = ["7150 - 7151", "7152 - 7153", "7154 - 7155"]


def _fn(params, expr, ret="return"):
    args = ", ".join(ARG[: len(params)])
    return "def main(%s):\n    %s %s\n\n\nprint(main(%s))\n" % (", ".join(params), ret, expr, args)


def cmp_atom(var, op, const, const_left=False):
    return "%s %s %s" % ((const, op, var) if const_left else (var, op, const))


# ---------------------------------------------------------------- C17 (a): bound analysis
def c17_two_comparisons():
    for op1, op2, bop in itertools.product(OPS, OPS, ["and", "or"]):
        for left1, left2 in itertools.product([False, True], repeat=2):
            for v2 in ("x", "y"):
                e = "%s %s %s" % (cmp_atom("x", op1, 7000, left1), bop, cmp_atom(v2, op2, 7001, left2))
                sid = "cmp2/%s%s/%s/%s%s/%s" % (op1, op2, bop, "L" if left1 else "R", "L" if left2 else "R", v2)
                yield Skeleton(sid, _fn(["x", "y"], e))


def c17_three_comparisons():
    for ops in itertools.product(OPS, repeat=3):
        for bop in ("and", "or"):
            e = (" %s " % bop).join(cmp_atom("x", op, 7000 + i) for i, op in enumerate(ops))
            yield Skeleton("cmp3/%s/%s" % ("".join(ops), bop), _fn(["x", "y"], e))


def c17_mixed():
    """nested BoolOps, `not`, literal True/False operands, duplicated operands."""
    atoms = ["x > 7000", "x >= 7001", "x < 7001", "x == 7001", "x != 7000", "7000 < x", "y <= 7001"]
    k = 0
    for a, b in itertools.permutations(atoms[:5], 2):
        for form in ("(%s and %s) or x < 7002", "%s and (%s and x != 7002)", "not (%s) and %s",
                     "%s or not (%s)", "%s and True and %s", "%s or False or %s", "not (%s and %s)",
                     "(%s or %s) and (x > 7002 or x <= 7002)"):
            k += 1
            yield Skeleton("mixed/%d" % k, _fn(["x", "y"], form % (a, b)))
    for a in atoms:
        for form in ("%s and %s", "%s or %s", "%s and not (%s)", "%s or not (%s)", "not %s", "not not (%s)",
                     "%s and True", "True and %s", "%s or True", "False or %s", "%s and False"):
            k += 1
            yield Skeleton("mixed/%d" % k, _fn(["x", "y"], form % ((a,) * form.count("%s"))))


# ---------------------------------------------------------------- C17 (b): sympy boolean simplification
def _formulas(atoms, size):
    if size == 1:
        for a in atoms:
            yield a
        return
    # not
    for f in _formulas(atoms, size - 1):
        yield "not (%s)" % f
    for ls in range(1, size - 1):
        rs = size - 1 - ls
        for l in _formulas(atoms, ls):
            for r in _formulas(atoms, rs):
                yield "(%s) and (%s)" % (l, r)
                yield "(%s) or (%s)" % (l, r)


def c17_symmath(max_size, atoms_kind="bool"):
    if atoms_kind == "bool":
        atoms, args = ["a", "b", "c"], "cond(), cond(), cond()"
    elif atoms_kind == "int":
        atoms, args = ["a", "b", "c"], "inp(), inp(), inp()"
    else:
        atoms, args = ["a > 0", "b > 0", "a > b"], "inp(), inp(), inp()"
    seen = set()
    for size in range(2, max_size + 1):
        for f in _formulas(atoms, size):
            if f in seen:
                continue
            seen.add(f)
            text = prelude(3) + "def main(a, b, c):\n    return %s\n\n\nprint(main(%s))\n" % (f, args)
            yield Skeleton("symmath/%s/%s" % (atoms_kind, f), text, tape=3)


# ---------------------------------------------------------------- C17 (c): negation and friends
NEG_CONDS = (
    ["x %s y" % op for op in OPS]
    + ["x %s 7000" % op for op in OPS]
    + ["7000 %s x" % op for op in OPS]
    + ["x > 7000 and y < 7001", "x > 7000 or y < 7001", "not x > 7000", "not (x > 7000 and y > 7001)",
       "x > 7000 and (y > 7001 or x == y)", "x in (7000, 7001)", "x not in (7000, 7001)", "x is None",
       "x is not None", "x", "not x", "x and y", "x or y", "x > y > 7000", "7000 <= x < 7001"]
)


def c17_negate_swap():
    for i, c in enumerate(NEG_CONDS):
        text = (
            "def main(x, y):\n    if %s:\n        pass\n    else:\n        print(\"else\")\n    print(\"end\")\n\n\n"
            "main(%s, %s)\n" % (c, ARG[0], ARG[1])
        )
        yield Skeleton("negate/swap/%d:%s" % (i, c), text)


def c17_negate_early_continue():
    for i, c in enumerate(NEG_CONDS):
        c = c.replace("x", "i")
        body = "".join("            print(%r, i)\n" % ch for ch in "abcdef")
        text = (
            "def main(n, y):\n    for i in range(n):\n        if %s:\n%s\n\nmain(7100, %s)\n" % (c, body, ARG[1])
        )
        yield Skeleton("negate/early_continue/%d:%s" % (i, c), text, lits={7100: (0, 4)})


def c17_negated_numeric():
    k = 0
    for op in OPS + ["in", "not in", "is", "is not"]:
        for l, r in (("x", "7000"), ("7000", "x"), ("x", "y"), ("x", "-7000"), ("x + 7000", "y"), ("x", "7000 + y")):
            if op in ("in", "not in"):
                r = "(%s, 7001)" % r
            if op in ("is", "is not") and r not in ("y",):
                r = "None"
            k += 1
            yield Skeleton("negnum/%d:not %s %s %s" % (k, l, op, r), _fn(["x", "y"], "not %s %s %s" % (l, op, r)))


def c17_redundant_boolop():
    vals = ["x", "y", "7000", "0", "1", "True", "False", "''", "'s'", "[]", "None", "7000 > 7001", "x > 7000"]
    k = 0
    for a, b in itertools.permutations(vals, 2):
        for bop in ("and", "or"):
            k += 1
            yield Skeleton("rboolop/%d:%s %s %s" % (k, a, bop, b), _fn(["x", "y"], "%s %s %s" % (a, bop, b)))
    for a, b, c in itertools.permutations(["x", "7000", "0", "True", "y", "''"], 3):
        for bop in ("and", "or"):
            k += 1
            yield Skeleton("rboolop/%d:%s %s %s %s %s" % (k, a, bop, b, bop, c),
                           _fn(["x", "y"], "%s %s %s %s %s" % (a, bop, b, bop, c)))


def c17_singleton_eq():
    k = 0
    for op in ("==", "!="):
        for s in ("None", "True", "False"):
            for l in ("x", "x > 7000", "x == y"):
                k += 1
                yield Skeleton("singleton/%d:%s %s %s" % (k, l, op, s), _fn(["x", "y"], "(%s) %s %s" % (l, op, s)))


# ---------------------------------------------------------------- C17 (d): constrained ranges
def c17_constrained_range(tier="quick"):
    small = (0, 7)
    arglists = [
        ("7000", {7000: small}),
        ("7000, 7001", {7000: small, 7001: small}),
        ("0, 7001", {7001: small}),
        ("n", {}),
        ("n, 7001", {7001: small}),
        ("7000, n", {7000: small}),
        ("0, n", {}),
        ("7000, 7001, 7002", {7000: small, 7001: small, 7002: (1, 4)}),
        ("7000, 7001, 2", {7000: small, 7001: small}),
        ("0, 7001, 7002", {7001: small, 7002: (1, 4)}),
        ("7000, 7001, -1", {7000: small, 7001: small}),
        ("7000, 7001, 1", {7000: small, 7001: small}),
    ]
    filt_ops = [">", ">=", "<", "<=", "=="]
    k = 0
    for args, lits in arglists:
        for op in filt_ops:
            for const_left in (False, True):
                f = cmp_atom("x", op, 7003, const_left)
                for comp in ("[x for x in range(%s) if %s]", "{x for x in range(%s) if %s}",
                             "list(x for x in range(%s) if %s)"):
                    if comp[0] != "[" and (tier == "quick" and (const_left or op in (">=", "<="))):
                        continue
                    k += 1
                    e = comp % (args, f)
                    if comp[0] == "{":
                        e = "sorted(%s)" % e
                    l2 = dict(lits)
                    l2[7003] = small
                    text = "def main(n, y):\n    return %s\n\n\nprint(main(7100, 0))\n" % e
                    l2[7100] = small
                    yield Skeleton("crange/%d:%s" % (k, e), text, lits=l2)
        # two filters
        for op1, op2 in itertools.product(filt_ops, repeat=2):
            if tier == "quick" and (op1, op2) not in ((">", "<"), (">=", "<="), ("<", "=="), (">", ">="), ("==", ">")):
                continue
            for form in ("if x %s 7003 if x %s 7004", "if x %s 7003 and x %s 7004"):
                k += 1
                e = "[x for x in range(%s) %s]" % (args, form % (op1, op2))
                l2 = dict(lits)
                l2.update({7003: small, 7004: small, 7100: small})
                text = "def main(n, y):\n    return %s\n\n\nprint(main(7100, 0))\n" % e
                yield Skeleton("crange/%d:%s" % (k, e), text, lits=l2)


# ---------------------------------------------------------------- C17 (e): sum closed forms (sympy boundary)
def c17_math_iterators():
    exprs = ["sum(range(n))", "sum(range(0, n))", "sum(range(n, m))", "sum(range(m))"]
    for k in range(0, 4):
        exprs += ["sum(range(%d, n))" % k, "sum(range(n, %d))" % (k + 3), "sum(range(%d))" % (k + 2),
                  "sum(range(%d, %d))" % (k, 2 * k + 1)]
    exprs += ["sum(range(n, m, 2))", "sum(range(0, n, 3))", "sum(range(1, n, 1))",
              "sum([1, 2, 3])", "sum((n, m, 2))", "sum([n, -m])", "sum([x for x in range(n)])",
              "sum(x * x for x in range(n))", "sum(x + 1 for x in range(n))", "sum(2 * x for x in range(1, n))",
              "sum(x * y for x in range(n) for y in range(m))", "sum(1 for x in range(n))",
              "sum(x for x in (1, 2, 3))", "sum(x * n for x in [1, 2])", "sum([x ** 2 for x in range(n)])",
              "sum(x for x in range(n, m))", "len(range(n))", "sum(range(n)) + sum(range(m))",
              "sum(x / 2 for x in range(n))", "sum(x // 2 for x in range(n))", "sum(x % 2 for x in range(n))"]
    for i, e in enumerate(exprs):
        text = prelude(2) + "def main(n, m):\n    return %s\n\n\nprint(main(inp() + 2, inp() + 3))\n" % e
        yield Skeleton("mathiter/%d:%s" % (i, e), text, tape=2)


# ---------------------------------------------------------------- C16: statement shapes
import textwrap as _tw


def _ind(s, n=1):
    return _tw.indent(s, "    " * n)


C16_ATOMS = ["effect()", "return", "return effect()", "raise E()", "break", "continue", "pass", "assert cond()",
             "assert False", "assert True", "assert 7000 > 7001", "x = effect()", "assert 0, effect()"]
C16_TESTS = ["cond()", "True", "False", "7000 > 7001", "p > 0", "1 > 2", "not cond()", "7000"]
C16_ITERS = ["seq()", "(1, 2)", "()", "range(7002)", "[]", "[effect()]", "zip()", "zip([1, 2], [])", "reversed([])", "enumerate(())",
             "iter('')", "filter(None, [0, ''])", "'ab'", "{1: 2}", "range(2, 2)"]


def _c16_compounds(bodies, tests, iters, with_else=True):
    for b in bodies:
        for t in tests:
            yield "if %s:\n%s" % (t, _ind(b))
            yield "while %s:\n%s" % (t, _ind(b))
        for it in iters:
            yield "for _ in %s:\n%s" % (it, _ind(b))
        yield "with cm():\n%s" % _ind(b)
        yield "with swallow():\n%s" % _ind(b)
        yield "try:\n%s\nexcept E:\n    pass" % _ind(b)
        yield "try:\n%s\nfinally:\n    effect()" % _ind(b)
    if with_else:
        eb = [b for b in bodies if b in ("effect()", "return", "raise E()", "break", "continue", "pass",
                                         "effect()\nreturn", "effect()\ncontinue")]
        for b1, b2 in itertools.product(eb, repeat=2):
            for t in tests[:5]:
                yield "if %s:\n%s\nelse:\n%s" % (t, _ind(b1), _ind(b2))
            yield "while cond():\n%s\nelse:\n%s" % (_ind(b1), _ind(b2))
            yield "while False:\n%s\nelse:\n%s" % (_ind(b1), _ind(b2))
            yield "while 7000 > 7001:\n%s\nelse:\n%s" % (_ind(b1), _ind(b2))
            yield "if cond():\n%s\nelif 1:\n%s\nelse:\n%s" % (_ind(b1), _ind(b2), _ind(b1))
            yield "if cond():\n%s\nelif 0:\n%s\nelse:\n%s" % (_ind(b1), _ind(b2), _ind(b2))
            yield "if 7000 > 7001:\n%s\nelif cond():\n%s\nelse:\n%s" % (_ind(b1), _ind(b2), _ind(b1))
            yield "for _ in zip():\n%s\nelse:\n%s" % (_ind(b1), _ind(b2))
            yield "while True:\n%s\nelse:\n%s" % (_ind(b1), _ind(b2))
            yield "for _ in seq():\n%s\nelse:\n%s" % (_ind(b1), _ind(b2))
            yield "for _ in (1, 2):\n%s\nelse:\n%s" % (_ind(b1), _ind(b2))
            yield "try:\n%s\nexcept E:\n%s" % (_ind(b1), _ind(b2))
            yield "if cond():\n%s\nelif cond():\n%s\nelse:\n%s" % (_ind(b1), _ind(b2), _ind(b1))


C16_PRELUDE_EXTRA = '''class E(Exception):
    pass


class cm:
    def __enter__(self):
        return self

    def __exit__(self, *args):
        return False


class swallow:
    def __enter__(self):
        return self

    def __exit__(self, *args):
        return True


def seq():
    return [1, 2][: TAPE.pop() % 3]


'''


def _hid(prefix, text):
    import hashlib

    return "%s/%s" % (prefix, hashlib.sha1(text.encode()).hexdigest()[:10])


def c16_shapes(tier="quick"):
    """ids are content hashes (stable when the family is extended)."""
    seen, out = set(), []
    for sid, shape in _c16_shapes(tier):
        h = _hid(sid.split("/")[0], shape)
        if h not in seen:
            seen.add(h)
            out.append((h, shape))
    return out


def _c16_shapes(tier="quick"):
    """Statement shapes of nesting <= 2 (quick) / 3 (thorough-sample)."""
    level0 = list(C16_ATOMS)
    bodies1 = level0 + ["effect()\n" + b for b in ("return", "break", "continue", "effect()", "raise E()")]
    level1 = list(_c16_compounds(bodies1, C16_TESTS, C16_ITERS))
    out = [("s0/%d" % i, s) for i, s in enumerate(level0)] + [("s1/%d" % i, s) for i, s in enumerate(level1)]
    # loop bodies of two statements: a conditional jump followed by an unconditional one
    k = 0
    for head in ["for _ in (1, 2)", "for _ in seq()", "for _ in range(7002)", "while True", "while cond()", "while p > 0"]:
        for test in ("cond()", "p > 0", "7000 > 7001"):
            for jump in ("continue", "break", "return", "raise E()"):
                for tail in ("return", "raise E()", "break", "continue", "effect()"):
                    for wrap in ("%s", "with cm():\n%s", "if %s:\n%%s\nelse:\n    %s" % (test, jump)):
                        if wrap.startswith("if"):
                            inner = _ind("effect()\n" + jump)
                            body = (wrap % inner) + "\n" + tail
                        else:
                            inner = "if %s:\n%s\n%s" % (test, _ind(jump), tail)
                            body = wrap % (_ind(inner) if wrap != "%s" else inner)
                        k += 1
                        out.append(("s1b/%d" % k, "%s:\n%s" % (head, _ind(body))))
    if tier != "quick":
        # nesting 3: compounds whose bodies are (a sample of) level-1 compounds
        # a seventh of the level-1 compounds, chosen by content (not by position: extending the family must not
        # shift the sample, or the ids of known findings would no longer be enumerated)
        import hashlib

        inner = [s for s in level1 if int(hashlib.sha1(s.encode()).hexdigest(), 16) % 7 == 0]
        level2 = list(_c16_compounds(inner, ["cond()", "True", "7000 > 7001"], ["seq()", "(1, 2)"], with_else=False))
        out += [("s2/%d" % i, s) for i, s in enumerate(level2)]
    return out


def c16_program(shape, tape=8):
    """The shape inside a loop inside a function, followed by an observable statement."""
    body = "def main(p):\n    for _k in (1, 2):\n%s\n        print(\"fall\", _k)\n    print(\"after\")\n    return 5\n" % _ind(shape, 2)
    return prelude(tape) + C16_PRELUDE_EXTRA + body + "\n\nprint(main(inp()))\n"


def c16_skeletons(tier="quick"):
    for sid, shape in c16_shapes(tier):
        lits = {7000: (0, BIG), 7001: (0, BIG), 7002: (0, 3)}
        yield Skeleton("blk/%s" % sid, c16_program(shape), lits={k: v for k, v in lits.items() if str(k) in shape},
                       tape=8, fuel=300, meta={"shape": shape})


C16_EXPRS = [
    "pure(a)", "noisy(a)", "calls_noisy(a)", "calls_pure(a)", "[noisy(i) for i in range(2)]", "[pure(i) for i in (1, 2)]",
    "noisy(a) if a else 0", "a if noisy(a) else 0", "0 if a else noisy(a)", "f'{noisy(a)}'", "f'{a}'", "f'{a:{noisy(2)}}'",
    "a.real", "[a][0]", "(lambda: noisy(a))()", "(lambda: noisy(a))", "(lambda q=noisy(a): q)", "print(*[a])",
    "len([noisy(a)])", "abs(a)", "a + noisy(a)", "-noisy(a)", "a < noisy(a)", "a and noisy(a)", "a or noisy(a)",
    "{noisy(a): 1}", "{1: noisy(a)}", "{noisy(a) for _ in (1,)}", "{k: noisy(k) for k in (1,)}",
    "{noisy(k): k for k in (1,)}", "[a][noisy(0)]", "[a][noisy(0):1]", "(noisy(a),)", "[*[noisy(a)]]", "[a, *[noisy(a)]]",
    "str(noisy(a))", "sorted([noisy(a)])", "(noisy(i) for i in (1, 2))", "list(noisy(i) for i in (1, 2))",
    "[i for i in (1, 2) if noisy(i)]", "[i for i in [noisy(1)]]", "[j for i in (1,) for j in [noisy(i)]]",
    "a == noisy(a)", "not noisy(a)", "obj.m(a)", "obj.attr", "Obj().m(a)", "Obj()", "Quiet()", "Loud()",
    "both_branches_return(a)", "returns_after_noise(a)", "list(map(noisy, [1, 2]))", "list(map(pure, [1, 2]))",
    "sorted([2, 1], key=noisy)", "sorted([2, 1], key=pure)", "max([1, 2], key=lambda q: noisy(q))", "min([1, 2], key=lambda q: q)",
    "list(filter(noisy, [1]))", "list(filter(None, [1]))", "any(map(noisy, [1]))",
    "Blank()", "NewLoud()", "Child()", "Both()", "[Loud() for _ in (1,)]", "Blank() and Loud()", "Loud if a else Blank",
    "''.join(['x'])", "'x'.upper()", "TAPE.pop()", "effect()", "cond()", "inp()", "max(a, noisy(a))", "a", "7000", "None",
    "'doc'", "...", "a[0] if 0 else 1", "(yield_ := noisy(a))", "(b := a)", "pure(noisy(a))", "pure(pure(a))",
    "noisy", "pure", "[pure, noisy][1](a)", "{'k': noisy}['k'](a)", "getattr(obj, 'm')(a)", "print", "print(a)",
    "isinstance(noisy(a), int)", "int(noisy(a))", "pure(a=noisy(a))", "pure(*[noisy(a)])", "pure(**{'x': noisy(a)})",
]
C16_STMTS = [
    "_ = noisy(a)", "_ = pure(a)", "b = noisy(a)", "b: int = noisy(a)", "a += noisy(a)", "_ += 1", "del a",
    "for i in (1, 2):\n    pure(i)", "for i in (1, 2):\n    noisy(i)", "for _ in (1, 2):\n    noisy(a)",
    "for _ in [noisy(a)]:\n    pass", "if a:\n    pure(a)", "if noisy(a):\n    pass", "if a:\n    noisy(a)",
    "if a:\n    pass\nelse:\n    noisy(a)", "while pure(a) > 100:\n    pass", "with cm():\n    pass", "assert a or not a",
    "assert noisy(a) or True", "global G", "import math", "def _():\n    pass", "def helper():\n    noisy(1)",
    "class _:\n    noisy(1)", "lambda: 0", "try:\n    pure(a)\nexcept E:\n    pass", "pass", "return_ = 1",
    "try:\n    raiser(a)\n    print('not raised')\nexcept E:\n    print('raised')", "next(ITER)\nprint(next(ITER))",
    "[noisy(i) for i in (1, 2)]\npure(a)", "_ = [noisy(i) for i in (1, 2)]", "_ = {noisy(a): 1}", "_ = a if noisy(a) else 0",
    "_ = f'{noisy(a)}'", "_ = (lambda: noisy(a))()", "_ = obj.m(a)", "_[0] = noisy(a)", "_.x = 1",
]
C16_EXPR_PRELUDE = '''G = 0


def pure(x):
    return x + 1


def noisy(x):
    print("noisy", x)
    return x


def calls_noisy(x):
    return noisy(x) + 1


def calls_pure(x):
    return pure(x) + 1


class Obj:
    attr = 3

    def m(self, x):
        print("m", x)
        return x


class Quiet:
    def __init__(self):
        self.v = 1


class Loud:
    def __init__(self):
        print("Loud")


class Blank:
    def __init__(self):
        pass


def raiser(x):
    raise E(x)


def both_branches_return(x):
    if x > 0:
        print("positive", x)
        return 1
    else:
        print("other", x)
        return 2


def returns_after_noise(x):
    print("noise", x)
    return x


ITER = iter([1, 2, 3, 4, 5, 6, 7, 8])


class NewLoud:
    def __new__(cls):
        print("NewLoud")
        return object.__new__(cls)


class Child(Loud):
    pass


class Both:
    def __new__(cls):
        return object.__new__(cls)

    def __init__(self):
        print("Both")


obj = Obj()


'''


def c16_pointless_skeletons():
    for i, e in enumerate(C16_EXPRS + C16_STMTS):
        for pos in ("first", "mid", "last"):
            stmt = e
            if pos == "first":
                body = "%s\n    print(\"end\", a)" % _ind(stmt).strip()
            elif pos == "mid":
                body = "print(\"start\")\n%s\n    print(\"end\", a)" % _ind(stmt)
            else:
                body = "print(\"start\", a)\n%s" % _ind(stmt)
            if pos != "mid" and i % 3:
                continue
            text = (prelude(4) + C16_PRELUDE_EXTRA + C16_EXPR_PRELUDE
                    + "def main(a):\n    %s\n    return a\n\n\nprint(main(inp()))\n" % body)
            yield Skeleton("pointless/%s/%s:%s" % (_hid("p", e).split("/")[1][:6], pos, e.replace("\n", "\\n")), text, tape=4, fuel=300,
                           lits={7000: (0, BIG)} if "7000" in e else {})
