"""symx: a proxy-based symbolic executor over z3 that runs real Python functions.

The code under check is *called* with proxies (SymInt/SymBool/SymReal) inside its arguments.
CPython executes it; whenever control flow needs a truth value the proxy asks the engine, which
forks (depth-first, decision replay: every path re-runs the harness from scratch).

Verdicts: every feasible path explored and every claim `unsat` when negated -> "confirmed";
a model of (path condition and not claim) -> "refuted" (counterexample kept for replay);
`unknown`, a budget cut or an unsupported operation -> "inconclusive" (never success).
"""
from __future__ import annotations

import builtins
import os
import time

import z3

_isinstance = builtins.isinstance
_type = builtins.type


class EngineSignal(BaseException):
    """Base of the engine's control-flow exceptions (BaseException: code under check that
    catches `Exception` must not swallow them)."""


# set by symtv while an executed program runs (rule code hashes marker constants into its own dicts, where the
# constant hash + symbolic equality is the faithful model; see _SymNum.__hash__)
FAITHFUL_HASH = False


class Abort(EngineSignal):
    """The current path condition is infeasible (or a `require` failed)."""


class PathCut(EngineSignal):
    """Budget exhausted (paths, time, fuel): the obligation becomes inconclusive."""


class Unsupported(EngineSignal):
    """An operation the proxies do not model: the path is inconclusive."""


class Outside(EngineSignal):
    """The path leaves the class of behaviours the property talks about (e.g. the original program does
    not terminate within the fuel): counted, not a verdict."""


class Result:
    def __init__(self):
        self.status = "confirmed"
        self.paths = 0
        self.aborted_paths = 0
        self.outside_paths = 0
        self.branches = 0
        self.checks = 0
        self.solver_s = 0.0
        self.concretisations = 0
        self.claims = 0
        self.claims_reached_nontrivially = 0
        self.cexs = []  # list of dict(model=..., info=...)
        self.inconclusive = []  # reasons
        self.wall_s = 0.0
        self.notes = {}
        self.xcheck = {"asked": 0, "agree": 0, "no_verdict": 0, "disagree": []}  # second solver (cvc5) on sampled claims

    def as_dict(self):
        return {
            "xcheck": self.xcheck,
            "status": self.status,
            "paths": self.paths,
            "aborted_paths": self.aborted_paths,
            "outside_paths": self.outside_paths,
            "branches": self.branches,
            "checks": self.checks,
            "solver_s": round(self.solver_s, 4),
            "concretisations": self.concretisations,
            "claims": self.claims,
            "claims_nontrivial": self.claims_reached_nontrivially,
            "cexs": self.cexs,
            "inconclusive": self.inconclusive[:5],
            "wall_s": round(self.wall_s, 3),
            "notes": self.notes,
        }


def merge_xcheck(agg, d):
    """Sum the second-solver counters of one engine run into an aggregate result dict."""
    x = d.get("xcheck")
    if not x:
        return
    a = agg.setdefault("xcheck", {"asked": 0, "agree": 0, "no_verdict": 0, "disagree": []})
    a["asked"] += x.get("asked", 0)
    a["agree"] += x.get("agree", 0)
    a["no_verdict"] += x.get("no_verdict", 0)
    a["disagree"] += x.get("disagree", [])[:2]


XCHECK_PER_ENGINE = int(os.environ.get("VERIF_XCHECK", "1") or 0)  # unsat claims per obligation re-decided by cvc5
CVC5 = os.environ.get("VERIF_CVC5", "cvc5")


class Engine:
    cur: "Engine | None" = None

    def __init__(self, *, max_paths=20000, budget_s=60.0, seed=0, max_cex=8, solver_timeout_ms=20000,
                 stop_on_first=False):
        self.max_paths = max_paths
        self.budget_s = budget_s
        self.seed = seed
        self.max_cex = max_cex
        self.solver_timeout_ms = solver_timeout_ms
        self.stop_on_first = stop_on_first
        self.max_enum = 40  # values tried by one concretisation before the path is cut
        self.decisions = []  # [value, other_side_open]
        self.pos = 0
        self.solver = None
        self._model = None
        self.res = Result()
        self.path_hooks = []  # callables run at the start of every path (cache resets ...)
        self.path_state = {}  # per-path scratch (marker table ...), reset every path
        self.vars = {}  # name -> z3 const created through fresh()/var()
        self._fresh_n = 0
        self._t0 = 0.0
        self.xcheck_left = XCHECK_PER_ENGINE

    # ---- solver plumbing -------------------------------------------------------------------
    def _check(self, *extra):
        t = time.perf_counter()
        self.res.checks += 1
        r = self.solver.check(*extra)
        self.res.solver_s += time.perf_counter() - t
        return r

    def model(self):
        """A model of the current path condition (Abort if there is none)."""
        if self._model is None:
            r = self._check()
            if r == z3.unsat:
                raise Abort("infeasible path condition")
            if r != z3.sat:
                raise PathCut("solver unknown on path condition: %s" % self.solver.reason_unknown())
            self._model = self.solver.model()
        return self._model

    def _holds_in(self, model, cond):
        v = model.eval(cond, model_completion=True)
        if z3.is_true(v):
            return True
        if z3.is_false(v):
            return False
        return None

    def _add(self, cond):
        self.solver.add(cond)
        if self._model is not None and self._holds_in(self._model, cond) is not True:
            self._model = None

    # ---- API for harnesses -------------------------------------------------------------------
    def var(self, name, sort="int"):
        """A named solver variable (same z3 constant on every path)."""
        if name not in self.vars:
            self.vars[name] = {"int": z3.Int, "bool": z3.Bool, "real": z3.Real}[sort](name)
        return self.vars[name]

    def fresh(self, prefix="t", sort="int"):
        """A per-path fresh variable; numbering restarts on every path so that replayed paths see
        the same names."""
        n = self.path_state.setdefault("_fresh", 0)
        self.path_state["_fresh"] = n + 1
        return self.var("%s!%d" % (prefix, n), sort)

    def require(self, cond):
        """Assume `cond` from here on (placed before the code it constrains)."""
        cond = _term_bool(cond)
        if cond is True:
            return
        if cond is False:
            raise Abort("require(False)")
        self._add(cond)
        self.model()  # Abort right away when the assumption is infeasible

    def branch(self, cond):
        """Decide a symbolic condition: returns a Python bool, forking when both are feasible."""
        cond = z3.simplify(cond)
        if z3.is_true(cond):
            return True
        if z3.is_false(cond):
            return False
        if self.pos < len(self.decisions):  # replaying the prefix of an earlier path
            v = self.decisions[self.pos][0]
            self.pos += 1
            self._add(cond if v else z3.Not(cond))
            return v
        if time.perf_counter() - self._t0 > self.budget_s:
            raise PathCut("time budget %.0fs exhausted" % self.budget_s)
        m = self.model()
        mv = self._holds_in(m, cond)
        if mv is None:
            mv = True if self._check(cond) == z3.sat else False
            self._model = None
        other = z3.Not(cond) if mv else cond
        r = self._check(other)
        if r == z3.sat:
            open_ = True
        elif r == z3.unsat:
            open_ = False
        else:
            open_ = False
            self.res.inconclusive.append("solver unknown at branch: %s" % self.solver.reason_unknown())
        self.res.branches += 1
        self.decisions.append([mv, open_])
        self.pos += 1
        self.solver.add(cond if mv else z3.Not(cond))
        return mv

    def claim(self, prop, info=None):
        """Assert `prop` (z3 Bool / SymBool / bool) on the current path for every value."""
        self.res.claims += 1
        prop = _term_bool(prop)
        if prop is True:
            self.res.claims_reached_nontrivially += 1
            return True
        if prop is False:
            neg = None
        else:
            neg = z3.simplify(z3.Not(prop))
            if z3.is_false(neg):
                self.res.claims_reached_nontrivially += 1
                return True
        self.solver.push()
        try:
            if neg is not None:
                self.solver.add(neg)
            r = self._check()
            if r == z3.sat:
                m = self.solver.model()
                self._record_cex(m, info)
                return False
            if r == z3.unsat:
                self.res.claims_reached_nontrivially += 1
                if self.xcheck_left > 0 and neg is not None:
                    self.xcheck_left -= 1
                    self._second_solver()
                return True
            self.res.inconclusive.append("solver unknown at claim: %s" % self.solver.reason_unknown())
            return None
        finally:
            self.solver.pop()

    def _second_solver(self):
        """Re-decide the query z3 has just answered `unsat` (path condition and negated claim) with the cvc5 binary.
        `unsat` agrees; `sat` is a disagreement between the solvers (reported as a harness error, never as a verdict
        about pyrefact); a parse error, `unknown` or a timeout is no verdict (z3's sequence / regex theory symbols and
        some non-linear queries are outside what cvc5 1.0 reads or decides in the time limit)."""
        import subprocess
        import tempfile

        x = self.res.xcheck
        x["asked"] += 1
        try:
            text = "(set-logic ALL)\n" + self.solver.to_smt2()
            with tempfile.NamedTemporaryFile("w", suffix=".smt2", delete=True) as f:
                f.write(text)
                f.flush()
                p = subprocess.run([CVC5, "--tlimit=4000", f.name], capture_output=True, text=True, timeout=10)
            out = p.stdout.strip().splitlines()
            verdict = out[0].strip() if out else ""
            if "(error" in p.stdout or "(error" in p.stderr:
                verdict = "error"
        except Exception as e:  # noqa: BLE001 - binary missing, timeout ...
            verdict = "error:%s" % type(e).__name__
        if verdict == "unsat":
            x["agree"] += 1
        elif verdict == "sat":
            x["disagree"].append(text[:2000])
        else:
            x["no_verdict"] += 1

    def reachable(self):
        """True when the current path condition is satisfiable (vacuity witness)."""
        try:
            self.model()
            return True
        except Abort:
            return False

    def _record_cex(self, model, info):
        vals = {}
        for name, c in self.vars.items():
            v = model.eval(c, model_completion=True)
            vals[name] = _pyval(v)
        extra = info(model) if callable(info) else info
        self.res.cexs.append({"model": vals, "info": extra})

    def eval(self, model, x):
        """Concrete Python value of a proxy / term / plain value under a model."""
        return concretize(x, model)

    # ---- exploration ---------------------------------------------------------------------------
    def explore(self, harness):
        self._t0 = time.perf_counter()
        res = self.res
        while True:
            if res.paths >= self.max_paths:
                res.inconclusive.append("path budget %d exhausted" % self.max_paths)
                break
            if time.perf_counter() - self._t0 > self.budget_s:
                res.inconclusive.append("time budget %.0fs exhausted" % self.budget_s)
                break
            self.solver = z3.Solver()
            self.solver.set("timeout", self.solver_timeout_ms)
            self.solver.set("random_seed", self.seed)
            self._model = None
            self.pos = 0
            self.path_state = {}
            prev, Engine.cur = Engine.cur, self
            res.paths += 1
            try:
                for h in self.path_hooks:
                    h(self)
                out = harness(self)
                if out is not None:
                    self.claim(out)
            except Abort:
                res.aborted_paths += 1
            except Outside:
                res.outside_paths += 1
            except PathCut as e:
                res.inconclusive.append("cut: %s" % (e,))
            except Unsupported as e:
                res.inconclusive.append("unsupported: %s" % (e,))
            finally:
                Engine.cur = prev
            if len(res.cexs) >= self.max_cex or (self.stop_on_first and res.cexs):
                break
            while self.decisions and not self.decisions[-1][1]:
                self.decisions.pop()
            if not self.decisions:
                break
            d = self.decisions[-1]
            d[0] = not d[0]
            d[1] = False
        if res.cexs:
            res.status = "refuted"
        elif res.inconclusive:
            res.status = "inconclusive"
        else:
            res.status = "confirmed"
        res.wall_s = time.perf_counter() - self._t0
        return res


# ------------------------------------------------------------------------------------------------
# proxies


def _pyval(v):
    if z3.is_int_value(v):
        return v.as_long()
    if z3.is_true(v):
        return True
    if z3.is_false(v):
        return False
    if z3.is_rational_value(v):
        n, d = v.numerator_as_long(), v.denominator_as_long()
        return n / d if d != 1 else float(n)
    return str(v)


def _term_bool(x):
    if _isinstance(x, SymBool):
        x = x.e
    if x is True or x is False:
        return x
    if _isinstance(x, z3.BoolRef):
        if z3.is_true(x):
            return True
        if z3.is_false(x):
            return False
        return x
    raise TypeError("not a boolean term: %r" % (x,))


def _eng():
    e = Engine.cur
    if e is None:
        raise RuntimeError("symbolic value used outside an engine path")
    return e


def is_sym(x):
    return _isinstance(x, (SymInt, SymBool, SymReal))


def term(x):
    """z3 term of a proxy or Python number (NotImplemented otherwise)."""
    if _isinstance(x, (SymInt, SymBool, SymReal)):
        return x.e
    if _isinstance(x, bool):
        return z3.BoolVal(x)
    if _isinstance(x, int):
        return z3.IntVal(x)
    if _isinstance(x, float):
        if x != x or x in (float("inf"), float("-inf")):
            return NotImplemented
        return z3.RealVal(repr(x))
    return NotImplemented


def _num(x):
    """Arithmetic term (Int or Real sort); bools become 0/1."""
    t = term(x)
    if t is NotImplemented:
        return t
    if z3.is_bool(t):
        if z3.is_true(t):
            return z3.IntVal(1)
        if z3.is_false(t):
            return z3.IntVal(0)
        return z3.If(t, z3.IntVal(1), z3.IntVal(0))
    return t


def _wrap(t):
    if z3.is_bool(t):
        return SymBool(t)
    if z3.is_int(t):
        return SymInt(t)
    return SymReal(t)


def _is_realish(x):
    return _isinstance(x, (SymReal, float))


def py_floordiv(a, b):
    """Python's floor division on z3 Ints (z3's div is Euclidean)."""
    return z3.If(b > 0, a / b, (-a) / (-b))


def py_mod(a, b):
    return a - b * py_floordiv(a, b)


class _SymNum:
    __slots__ = ("e",)

    def __hash__(self):
        # Python's hash of the number itself (hash-based containers compare proxies with ordinary numbers:
        # `v in {1, 2}`); concretises - one path per value - like any other C boundary
        # (run-time inputs are small). Wide values - marker constants - keep a constant hash: they meet each
        # other in rule-side dicts, where equality then decides symbolically.
        if FAITHFUL_HASH and type(self) is SymInt:
            e = z3.simplify(self.e)
            if z3.is_int_value(e):
                return hash(e.as_long())
            if _eng().branch(z3.And(e >= -8, e <= 8)):
                return hash(self.__index__())
        return 7

    # comparisons -------------------------------------------------------------
    def _cmp(self, o, f):
        a, b = _num(self), _num(o)
        if b is NotImplemented:
            return NotImplemented
        return SymBool(f(a, b))

    def __lt__(s, o):
        return s._cmp(o, lambda a, b: a < b)

    def __le__(s, o):
        return s._cmp(o, lambda a, b: a <= b)

    def __gt__(s, o):
        return s._cmp(o, lambda a, b: a > b)

    def __ge__(s, o):
        return s._cmp(o, lambda a, b: a >= b)

    def __eq__(s, o):
        return s._cmp(o, lambda a, b: a == b)

    def __ne__(s, o):
        return s._cmp(o, lambda a, b: a != b)

    # arithmetic --------------------------------------------------------------
    def _ar(self, o, f, swap=False):
        a, b = _num(self), _num(o)
        if b is NotImplemented:
            return NotImplemented
        if swap:
            a, b = b, a
        return _wrap(z3.simplify(f(a, b)))

    def __add__(s, o):
        return s._ar(o, lambda a, b: a + b)

    def __radd__(s, o):
        return s._ar(o, lambda a, b: a + b, True)

    def __sub__(s, o):
        return s._ar(o, lambda a, b: a - b)

    def __rsub__(s, o):
        return s._ar(o, lambda a, b: a - b, True)

    def __mul__(s, o):
        return s._ar(o, lambda a, b: a * b)

    def __rmul__(s, o):
        return s._ar(o, lambda a, b: a * b, True)

    def __neg__(s):
        return _wrap(z3.simplify(-_num(s)))

    def __pos__(s):
        return _wrap(_num(s))

    def __abs__(s):
        a = _num(s)
        return _wrap(z3.simplify(z3.If(a >= 0, a, -a)))

    def _div_guard(self, b):
        if SymBool(b == 0):
            raise ZeroDivisionError("division by zero")

    def __truediv__(s, o, swap=False):
        a, b = _num(s), _num(o)
        if b is NotImplemented:
            return NotImplemented
        if swap:
            a, b = b, a
        s._div_guard(b)
        a = z3.ToReal(a) if z3.is_int(a) else a
        b = z3.ToReal(b) if z3.is_int(b) else b
        return SymReal(z3.simplify(a / b))

    def __rtruediv__(s, o):
        return s.__truediv__(o, True)

    def __floordiv__(s, o, swap=False):
        a, b = _num(s), _num(o)
        if b is NotImplemented:
            return NotImplemented
        if swap:
            a, b = b, a
        s._div_guard(b)
        if z3.is_int(a) and z3.is_int(b):
            return SymInt(z3.simplify(py_floordiv(a, b)))
        q = (z3.ToReal(a) if z3.is_int(a) else a) / (z3.ToReal(b) if z3.is_int(b) else b)
        return SymReal(z3.simplify(z3.ToReal(z3.ToInt(q))))

    def __rfloordiv__(s, o):
        return s.__floordiv__(o, True)

    def __mod__(s, o, swap=False):
        a, b = _num(s), _num(o)
        if b is NotImplemented:
            return NotImplemented
        if swap:
            a, b = b, a
        s._div_guard(b)
        if z3.is_int(a) and z3.is_int(b):
            return SymInt(z3.simplify(py_mod(a, b)))
        raise Unsupported("float modulo")

    def __rmod__(s, o):
        return s.__mod__(o, True)

    def __divmod__(s, o):
        return (s // o, s % o)

    def __rdivmod__(s, o):
        return (o // s, o % s)

    def __pow__(s, o, mod=None):
        if mod is not None:
            raise Unsupported("3-argument pow")
        if is_sym(o):
            o = o.__index__() if not _isinstance(o, SymReal) else _unsupported("real exponent")
        if _isinstance(o, bool):
            o = int(o)
        if _isinstance(o, float):
            raise Unsupported("float exponent")  # a float result in Python; not modelled (inconclusive, never TypeError)
        if not _isinstance(o, int):
            return NotImplemented
        if o < 0:
            s._div_guard(_num(s))
            return SymReal(z3.RealVal(1)) / (s ** (-o))
        if o > 16:
            raise Unsupported("exponent > 16")
        r = z3.IntVal(1) if not _isinstance(s, SymReal) else z3.RealVal(1)
        a = _num(s)
        for _ in range(o):
            r = r * a
        return _wrap(z3.simplify(r))

    def __rpow__(s, o):
        if not _isinstance(o, (int, float)):
            return NotImplemented
        if _isinstance(s, SymReal):
            raise Unsupported("real exponent")
        e = s.__index__()
        return o ** e


def _unsupported(msg):
    raise Unsupported(msg)


class SymBool(_SymNum):
    """Proxy for a Python bool."""

    __slots__ = ()

    def __init__(self, e):
        self.e = e

    def __bool__(self):
        return _eng().branch(self.e)

    def __index__(self):
        return 1 if self.__bool__() else 0

    __int__ = __index__

    def __float__(self):
        return float(self.__index__())

    def __repr__(self):
        return "True" if self.__bool__() else "False"

    __str__ = __repr__

    def __format__(self, spec):
        return format(bool(self), spec)

    def __eq__(s, o):
        if _isinstance(o, (SymBool, bool)):
            return SymBool(s.e == term(o))
        return _SymNum.__eq__(s, o)

    def __ne__(s, o):
        if _isinstance(o, (SymBool, bool)):
            return SymBool(s.e != term(o))
        return _SymNum.__ne__(s, o)

    def __hash__(s):
        return hash(s.__bool__()) if FAITHFUL_HASH else 7

    # bool is an int: round(True) == 1, math.floor(True) == 1 ...
    def __round__(s, ndigits=None):
        return s._as_int()

    def __trunc__(s):
        return s._as_int()

    __floor__ = __ceil__ = __trunc__

    def _as_int(s):
        return SymInt(_num(s))

    def __and__(s, o):
        if _isinstance(o, (SymBool, bool)):
            return SymBool(z3.simplify(z3.And(s.e, term(o))))
        return s._as_int() & o

    def __rand__(s, o):
        if _isinstance(o, (SymBool, bool)):
            return SymBool(z3.simplify(z3.And(s.e, term(o))))
        return o & s._as_int()

    def __or__(s, o):
        if _isinstance(o, (SymBool, bool)):
            return SymBool(z3.simplify(z3.Or(s.e, term(o))))
        return s._as_int() | o

    def __ror__(s, o):
        if _isinstance(o, (SymBool, bool)):
            return SymBool(z3.simplify(z3.Or(s.e, term(o))))
        return o | s._as_int()

    def __xor__(s, o):
        if _isinstance(o, (SymBool, bool)):
            return SymBool(z3.simplify(z3.Xor(s.e, term(o))))
        return s._as_int() ^ o

    def __rxor__(s, o):
        if _isinstance(o, (SymBool, bool)):
            return SymBool(z3.simplify(z3.Xor(s.e, term(o))))
        return o ^ s._as_int()

    def __lshift__(s, o):
        return s._as_int() << o

    def __rlshift__(s, o):
        return o << s._as_int()

    def __rshift__(s, o):
        return s._as_int() >> o

    def __rrshift__(s, o):
        return o >> s._as_int()

    def bit_length(self):
        return self.__index__().bit_length()

    def __invert__(s):
        return SymInt(z3.simplify(-_num(s) - 1))


class SymInt(_SymNum):
    """Proxy for a Python int."""

    __slots__ = ()

    #: installed by vk.markers: term -> marker literal (so ast.unparse keeps working)
    repr_hook = None

    def __init__(self, e):
        self.e = e

    def __bool__(self):
        return _eng().branch(self.e != 0)

    def __index__(self):
        """Explicit, counted concretisation at a C boundary (range(n), seq[i], slicing)."""
        eng = _eng()
        e = z3.simplify(self.e)
        if z3.is_int_value(e):
            return e.as_long()
        tries = 0
        while True:
            v = eng.model().eval(e, model_completion=True)
            eng.res.concretisations += 1
            if eng.branch(e == v):
                return v.as_long()
            tries += 1
            if tries > eng.max_enum:
                raise PathCut("unbounded concretisation (> %d values)" % eng.max_enum)

    __int__ = __index__

    def __trunc__(self):
        return self.__index__()

    def __float__(self):
        return float(self.__index__())

    def __round__(self, nd=None):
        if nd is None or (_isinstance(nd, int) and nd >= 0):
            return self
        raise Unsupported("round with negative digits")

    def __repr__(self):
        if SymInt.repr_hook is not None:
            return SymInt.repr_hook(self)
        return str(self.__index__())

    __str__ = __repr__

    def __format__(self, spec):
        if not spec:
            return self.__repr__()
        return format(self.__index__(), spec)

    def __invert__(s):
        return SymInt(z3.simplify(-s.e - 1))

    def _bitop(s, o, name):
        # no LIA model for bit operations: enumerate both operands (bounded by the harness)
        if _isinstance(o, SymReal) or not (is_sym(o) or _isinstance(o, int)):
            return NotImplemented
        a = s.__index__()
        b = o.__index__() if is_sym(o) else o
        if not _isinstance(b, int):
            return NotImplemented
        return getattr(int, name)(a, int(b))

    def __and__(s, o):
        return s._bitop(o, "__and__")

    def __rand__(s, o):
        return s._bitop(o, "__rand__")

    def __or__(s, o):
        return s._bitop(o, "__or__")

    def __ror__(s, o):
        return s._bitop(o, "__ror__")

    def __xor__(s, o):
        return s._bitop(o, "__xor__")

    def __rxor__(s, o):
        return s._bitop(o, "__rxor__")

    def __lshift__(s, o):
        if _isinstance(o, SymReal):
            return NotImplemented
        k = o.__index__() if is_sym(o) else o
        if not _isinstance(k, int):
            return NotImplemented
        if k < 0:
            raise ValueError("negative shift count")
        if k > 64:
            raise Unsupported("shift > 64")
        return SymInt(z3.simplify(s.e * (2 ** int(k))))

    def __rlshift__(s, o):
        if not _isinstance(o, int):
            return NotImplemented
        k = s.__index__()
        return o << k

    def __rshift__(s, o):
        if _isinstance(o, SymReal):
            return NotImplemented
        k = o.__index__() if is_sym(o) else o
        if not _isinstance(k, int):
            return NotImplemented
        if k < 0:
            raise ValueError("negative shift count")
        if k > 64:
            raise Unsupported("shift > 64")
        return SymInt(z3.simplify(py_floordiv(s.e, z3.IntVal(2 ** int(k)))))

    def __rrshift__(s, o):
        if not _isinstance(o, int):
            return NotImplemented
        k = s.__index__()
        return o >> k

    # int API bits that code under check may touch
    def bit_length(self):
        return self.__index__().bit_length()

    @property
    def real(self):
        return self

    @property
    def imag(self):
        return 0

    @property
    def numerator(self):
        return self

    @property
    def denominator(self):
        return 1

    def conjugate(self):
        return self

    def is_integer(self):
        return True


class SymReal(_SymNum):
    """Proxy for a Python float, modelled as a real (stated under-approximation: rounding,
    overflow, nan/inf are outside the model; results only ever matter through replay)."""

    __slots__ = ()

    def __init__(self, e):
        self.e = e

    def __bool__(self):
        return _eng().branch(self.e != 0)

    def _concrete(self):
        eng = _eng()
        e = z3.simplify(self.e)
        tries = 0
        while True:
            v = eng.model().eval(e, model_completion=True)
            eng.res.concretisations += 1
            if eng.branch(e == v):
                return _pyval(v)
            tries += 1
            if tries > eng.max_enum:
                raise PathCut("unbounded concretisation (> %d values)" % eng.max_enum)

    def __float__(self):
        return float(self._concrete())

    def __int__(self):
        return int(self._concrete())

    __trunc__ = __int__

    def __repr__(self):
        return repr(float(self._concrete()))

    __str__ = __repr__

    def __format__(self, spec):
        return format(float(self._concrete()), spec)

    def __round__(self, nd=None):
        raise Unsupported("round(float)")

    def is_integer(self):
        return SymBool(z3.IsInt(self.e))


# ------------------------------------------------------------------------------------------------
# proxy-aware builtins (bound as module globals inside the instrumented package)


def sym_isinstance(obj, types_):
    if _isinstance(obj, _SymNum):
        ts = types_ if _isinstance(types_, tuple) else (types_,)
        flat = []
        for t in ts:
            if _isinstance(t, tuple):
                flat.extend(t)
            else:
                flat.append(t)
        if _isinstance(obj, SymInt):
            ok = (int, object, SymInt, _SymNum)
        elif _isinstance(obj, SymBool):
            ok = (bool, int, object, SymBool, _SymNum)
        else:
            ok = (float, object, SymReal, _SymNum)
        import numbers

        for t in flat:
            if t is sym_type:
                continue
            if t in ok:
                return True
            if t in (numbers.Number, numbers.Real, numbers.Complex):
                return True
            if t in (numbers.Integral, numbers.Rational) and not _isinstance(obj, SymReal):
                return True
        return False
    if types_ is sym_type:
        return _isinstance(obj, _type)
    if _isinstance(types_, tuple) and any(t is sym_type for t in types_):
        types_ = tuple(_type if t is sym_type else t for t in types_)
    return _isinstance(obj, types_)


class _SymTypeMeta(type):
    def __call__(cls, *a, **k):
        if len(a) == 1 and not k:
            x = a[0]
            if _isinstance(x, SymInt):
                return int
            if _isinstance(x, SymBool):
                return bool
            if _isinstance(x, SymReal):
                return float
        return _type(*a, **k)

    def __instancecheck__(cls, o):
        return _isinstance(o, _type)

    def __subclasscheck__(cls, c):
        return issubclass(c, _type)


class sym_type(type, metaclass=_SymTypeMeta):
    """Stand-in for the builtin `type`: `type(SymInt(..))` is `int`."""


def sym_is(a, b, negate=False):
    """`a is b` for values that may be proxies. Identity is modelled for the bool/None singletons;
    identity between ints is implementation-defined in Python and outside every claim."""
    if is_sym(a) or is_sym(b):
        ta, tb = tag(a), tag(b)
        if ta != tb:
            r = False
        elif ta == "bool":
            r = SymBool(term(a) == term(b))
        elif a is b:
            r = True
        else:
            raise Unsupported("identity test between non-singleton numbers")
    else:
        r = a is b
    if negate:
        return (not r) if _isinstance(r, bool) else SymBool(z3.Not(r.e))
    return r


def sym_is_not(a, b):
    return sym_is(a, b, negate=True)


def sym_contains(x, y, negate=False):
    """`x in y` for hash-based containers that may hold proxies (or be asked about one): the hash of a proxy is a
    constant in rule code, so membership is decided by equality with every element, as Python does among elements
    with equal hashes."""
    if _isinstance(y, (set, frozenset, dict)) and (is_sym(x) or builtins.any(is_sym(k) for k in y)):
        hash(x)  # an unhashable element raises TypeError exactly as `in` does
        r = False
        for k in y:
            eq = (k == x)
            if eq is True:
                r = True
                break
            if is_sym(eq):
                r = eq if r is False else SymBool(z3.Or(term(r), term(eq)))
    else:
        r = x in y
    if negate:
        return (not r) if _isinstance(r, bool) else SymBool(z3.Not(r.e))
    return r


def sym_not_contains(x, y):
    return sym_contains(x, y, negate=True)


def sym_len(x):
    return builtins.len(x)


# ------------------------------------------------------------------------------------------------
# helpers for harnesses


def concretize(x, model):
    """Deep-concretise a value that may contain proxies, under a z3 model."""
    if _isinstance(x, _SymNum):
        v = _pyval(model.eval(x.e, model_completion=True))
        return v
    if _isinstance(x, z3.ExprRef):
        return _pyval(model.eval(x, model_completion=True))
    if _isinstance(x, list):
        return [concretize(i, model) for i in x]
    if _isinstance(x, tuple):
        return tuple(concretize(i, model) for i in x)
    if _isinstance(x, dict):
        return {concretize(k, model): concretize(v, model) for k, v in x.items()}
    if _isinstance(x, (set, frozenset)):
        return sorted((concretize(i, model) for i in x), key=repr)
    return x


def tag(v):
    if _isinstance(v, (SymBool, bool)):
        return "bool"
    if _isinstance(v, (SymInt, int)):
        return "int"
    if _isinstance(v, (SymReal, float)):
        return "float"
    return _type(v).__name__


def same(v1, v2):
    """Equality of two observed values as a z3 Bool / Python bool; values are compared with
    their Python type (True != 1 != 1.0, as on stdout)."""
    if is_sym(v1) or is_sym(v2):
        if tag(v1) != tag(v2):
            return False
        a, b = term(v1), term(v2)
        if a is NotImplemented or b is NotImplemented:
            return False
        return a == b
    if _type(v1) is not _type(v2):
        return False
    if _isinstance(v1, (list, tuple)):
        if len(v1) != len(v2):
            return False
        acc = []
        for a, b in zip(v1, v2):
            s = same(a, b)
            if s is False:
                return False
            if s is not True:
                acc.append(s)
        return z3.And(*acc) if acc else True
    if _isinstance(v1, dict):
        if len(v1) != len(v2):
            return False
        # keys: insertion order is observable when printed
        return same(list(v1.items()), list(v2.items()))
    if _isinstance(v1, (set, frozenset)):
        if len(v1) != len(v2):
            return False
        if any(is_sym(x) for x in v1) or any(is_sym(x) for x in v2):
            raise Unsupported("set with symbolic members in trace")
        return v1 == v2
    if _isinstance(v1, float) and v1 != v1 and v2 != v2:
        return True
    try:
        r = v1 == v2
    except Exception:
        return False
    if is_sym(r):
        return r.e
    return bool(r)


def z3_and(*xs):
    xs = [x for x in xs if x is not True]
    if any(x is False for x in xs):
        return False
    if not xs:
        return True
    return z3.And(*xs)
