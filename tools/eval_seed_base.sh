#!/bin/bash
# Development aid: evaluate a seeded change on a scratch worktree of /repo's HEAD (${BASE:-/tmp/rt/base}) via VERIF_REPO,
# without touching /repo. usage: eval_seed_base.sh <seed id> <patch> <tier> <check ids...>
id="$1"; patch="$2"; tier="$3"; shift 3
cd ${BASE:-/tmp/rt/base} && git checkout -q -- . && git apply "$patch" || { echo "$id: patch does not apply"; exit 8; }
t=$(PYTHONPATH=${BASE:-/tmp/rt/base} /venv/bin/python -m pytest -q -p no:cacheprovider --timeout=900 2>&1 | tail -1)
PYTHONPATH=${BASE:-/tmp/rt/base} /venv/bin/python ${SEEDROOT:-/tmp/rt}/$id/demo.py > /tmp/demo_$id.seeded.out 2>&1; d1=$?
PYTHONPATH=/repo /venv/bin/python ${SEEDROOT:-/tmp/rt}/$id/demo.py > /tmp/demo_$id.clean.out 2>&1; d0=$?
echo "$id: tests: $t | demo clean rc=$d0 seeded rc=$d1"
cd /verif
for p in "$@"; do
  s=$(date +%s)
  VERIF_REPO=${BASE:-/tmp/rt/base} ./check $p $tier > /tmp/seedbase_${id}_${p}.out 2>&1; rc=$?
  e=$(date +%s)
  echo "   check $p rc=$rc $((e-s))s violations=$(grep -c '^VIOLATION' /tmp/seedbase_${id}_${p}.out) herr=$(grep -c '^HARNESS-ERROR' /tmp/seedbase_${id}_${p}.out) | $(grep -m1 -A1 '^VIOLATION' /tmp/seedbase_${id}_${p}.out | tail -1 | cut -c1-200)"
done
cd ${BASE:-/tmp/rt/base} && git checkout -q -- .
