#!/bin/bash
# usage: with_mutation.sh <file-in-repo> <old> <new> -- <command...>
# Applies a one-shot textual mutation to one file of /repo, runs the command, restores that file from a
# backup copy (uncommitted work in /repo is preserved). Development aid only.
f="$1"; old="$2"; new="$3"; shift 4
bak=$(mktemp /tmp/mutbak.XXXXXX)
cp "/repo/$f" "$bak"
python3 - "$f" "$old" "$new" <<'PY' || { cp "$bak" "/repo/$f"; rm -f "$bak"; exit 9; }
import sys
f,old,new=sys.argv[1:4]
p="/repo/"+f; s=open(p).read()
assert s.count(old)>=1, "pattern not found: "+old
open(p,"w").write(s.replace(old,new,1))
PY
"$@"; rc=$?
cp "$bak" "/repo/$f"; rm -f "$bak"
exit $rc
