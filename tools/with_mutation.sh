#!/bin/bash
# usage: with_mutation.sh <file-in-repo> <old> <new> -- <command...>
# Applies a one-shot textual mutation to /repo, runs the command, restores /repo. Development aid only.
f="$1"; old="$2"; new="$3"; shift 4
python3 - "$f" "$old" "$new" <<'PY' || exit 9
import sys
f,old,new=sys.argv[1:4]
p="/repo/"+f; s=open(p).read()
assert s.count(old)>=1, "pattern not found: "+old
open(p,"w").write(s.replace(old,new,1))
PY
"$@"; rc=$?
git -C /repo checkout -- . 
exit $rc
