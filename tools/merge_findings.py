#!/usr/bin/env python3
"""Development aid: merge dumped violation keys (VERIF_DUMP_KEYS) into known_findings.json.

usage: merge_findings.py <PROP> <dump.json> <finding-id> <key-prefix-filter> <what...>
Keys matching the filter (substring) are added to the finding (created if absent). Never run by a check."""
import json, sys
prop, dump, fid, filt = sys.argv[1:5]
what = " ".join(sys.argv[5:])
d = json.load(open(dump))
kf = json.load(open("/verif/known_findings.json"))
f = next((x for x in kf["findings"] if x["id"] == fid), None)
if f is None:
    f = {"id": fid, "property": prop, "keys": [], "what": what, "status": "open"}
    kf["findings"].append(f)
if what:
    f["what"] = what
new = sorted({v["key"] for v in d["violations"] if filt in v["key"]} | set(f["keys"]))
print(fid, "keys:", len(f["keys"]), "->", len(new))
f["keys"] = new
json.dump(kf, open("/verif/known_findings.json", "w"), indent=1)
