#!/bin/bash
# Development aid: run every seeded change under seeded/ against the check of its property (quick tier) on a
# scratch worktree of /repo's HEAD (never on /repo itself). Prints one line per seed. Never run by a check.
cd "$(dirname "$0")/.."
base=/tmp/rt/base
if [ ! -d $base ]; then mkdir -p /tmp/rt && git -C /repo worktree add -q --detach $base HEAD; fi
(cd $base && git checkout -q -- . && git checkout -q --detach "$(git -C /repo rev-parse HEAD)")
for d in seeded/*/; do
  id=$(basename "$d"); prop=$(python3 -c "import json;print(json.load(open('$d/meta.json'))['property'])")
  case "$id" in _neutralised*) continue;; esac
  checks="$prop"
  [ "$id" = "C01-r2" ] && checks="C17"
  [ "$id" = "C15-r2" ] && checks="C16"
  SEEDROOT=$PWD/seeded tools/eval_seed_base.sh "$id" "$PWD/$d/patch.diff" quick $checks
done
