#!/bin/bash
# Development aid: run every registered check in a tier, print one line each.
tier=${1:-quick}
cd "$(dirname "$0")/.."
for p in $(python3 -c "import json; print(' '.join(c['property_id'] for c in json.load(open('MANIFEST.json'))['checks']))"); do
  s=$(date +%s)
  VERIF_DUMP_KEYS=/tmp/keys_${p}_${tier}.json ./check $p $tier > /tmp/run_${p}_${tier}.out 2>&1; rc=$?
  e=$(date +%s)
  echo "$p rc=$rc $((e-s))s $(grep -c '^VIOLATION' /tmp/run_${p}_${tier}.out) violations, $(grep -c '^KNOWN-FINDING' /tmp/run_${p}_${tier}.out) known; $(tail -1 /tmp/run_${p}_${tier}.out | cut -c1-160)"
done
