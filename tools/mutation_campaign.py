#!/usr/bin/env python3
"""Development aid (never run by a check): one-token mutation campaign against the quick tiers.

A scratch worktree of /repo's HEAD is mutated (one comparison / boolean operator / small constant / `not` per
mutant, inside the line regions the properties are anchored in); a mutant that still passes the 58 pinned tests and
the repository's example runner is given to the checks mapped to its region (VERIF_REPO=<worktree>); the first check
that prints a VIOLATION kills it. Survivors are either equivalent mutants or blind spots - each is listed with its
diff for triage.

usage: mutation_campaign.py <n_mutants> <seed> [out.json]     (worktree: /tmp/mut/tree, removed afterwards)"""
import ast
import json
import os
import random
import subprocess
import sys
import time

TREE = "/tmp/mut/tree"
VERIF = os.path.dirname(os.path.dirname(os.path.abspath(__file__)))  # the /verif this script belongs to (a snapshot under vp run)
REGIONS = [
    # (file, first line, last line, checks)
    ("pyrefact/processing.py", 628, 747, ["C10", "C06", "C14", "C20", "C03"]),
    ("pyrefact/processing.py", 366, 495, ["C14", "C03", "C20", "C04"]),
    ("pyrefact/core.py", 126, 378, ["C12", "C14", "C13"]),
    ("pyrefact/core.py", 423, 562, ["C12", "C13"]),
    ("pyrefact/core.py", 588, 759, ["C16", "C15", "C02"]),
    ("pyrefact/core.py", 762, 900, ["C13", "C20", "C14", "C04"]),
    ("pyrefact/core.py", 918, 1080, ["C15", "C16", "C04", "C02"]),
    ("pyrefact/symbolic_math.py", 255, 860, ["C17", "C02", "C15", "C04"]),
    ("pyrefact/pattern_matching.py", 22, 160, ["C13", "C14", "C12"]),
    ("pyrefact/main.py", 159, 420, ["C07", "C08", "C03", "C20", "C09", "C06"]),
    ("pyrefact/fixes.py", 1141, 1290, ["C17", "C09", "C16", "C02"]),
    ("pyrefact/fixes.py", 26, 72, ["C19", "C02"]),
    ("pyrefact/parsing.py", 143, 200, ["C16", "C02"]),
    ("pyrefact/abstractions.py", 22, 71, ["C19"]),
]
CMP = {ast.Lt: "<=", ast.LtE: "<", ast.Gt: ">=", ast.GtE: ">", ast.Eq: "!=", ast.NotEq: "==", ast.In: "not in",
       ast.NotIn: "in", ast.Is: "is not", ast.IsNot: "is"}
CMP_TXT = {ast.Lt: "<", ast.LtE: "<=", ast.Gt: ">", ast.GtE: ">=", ast.Eq: "==", ast.NotEq: "!=", ast.In: "in",
           ast.NotIn: "not in", ast.Is: "is", ast.IsNot: "is not"}


def candidates(path, lo, hi):
    src = open(os.path.join(TREE, path)).read()
    lines = src.split("\n")
    tree = ast.parse(src)
    out = []

    def seg(node):
        return (node.lineno, node.col_offset, node.end_lineno, node.end_col_offset)

    for node in ast.walk(tree):
        ln = getattr(node, "lineno", None)
        if ln is None or not lo <= ln <= hi:
            continue
        if isinstance(node, ast.Compare) and len(node.ops) == 1:
            l, r = node.left, node.comparators[0]
            if l.end_lineno == r.lineno:
                between = lines[l.end_lineno - 1][l.end_col_offset:r.col_offset]
                old = CMP_TXT[type(node.ops[0])]
                if between.strip() == old:
                    new = between.replace(old, CMP[type(node.ops[0])])
                    out.append((path, l.end_lineno, l.end_col_offset, r.col_offset, new, "cmp %s -> %s" % (old, CMP[type(node.ops[0])])))
        elif isinstance(node, ast.BoolOp) and len(node.values) == 2:
            l, r = node.values
            if l.end_lineno == r.lineno:
                between = lines[l.end_lineno - 1][l.end_col_offset:r.col_offset]
                old = "and" if isinstance(node.op, ast.And) else "or"
                if between.strip() == old:
                    new = between.replace(old, "or" if old == "and" else "and")
                    out.append((path, l.end_lineno, l.end_col_offset, r.col_offset, new, "boolop %s flipped" % old))
        elif isinstance(node, ast.UnaryOp) and isinstance(node.op, ast.Not) and node.lineno == node.operand.lineno:
            out.append((path, node.lineno, node.col_offset, node.operand.col_offset, "", "not removed"))
        elif isinstance(node, ast.Constant) and type(node.value) is int and node.value in (0, 1, 2) and node.lineno == node.end_lineno:
            out.append((path, node.lineno, node.col_offset, node.end_col_offset, str(node.value + 1), "const %d -> %d" % (node.value, node.value + 1)))
        elif isinstance(node, ast.Constant) and type(node.value) is bool and node.lineno == node.end_lineno:
            out.append((path, node.lineno, node.col_offset, node.end_col_offset, str(not node.value), "const %s flipped" % node.value))
    return out


def apply(m):
    path, ln, c0, c1, new, _what = m
    p = os.path.join(TREE, path)
    lines = open(p).read().split("\n")
    lines[ln - 1] = lines[ln - 1][:c0] + new + lines[ln - 1][c1:]
    open(p, "w").write("\n".join(lines))


def sh(cmd, **kw):
    return subprocess.run(cmd, shell=True, capture_output=True, text=True, **kw)


def main():
    n, seed = int(sys.argv[1]), int(sys.argv[2])
    out_path = sys.argv[3] if len(sys.argv) > 3 else "/verif/mutation/results_%d.json" % seed
    os.makedirs(os.path.dirname(out_path), exist_ok=True)
    if not os.path.isdir(TREE):
        os.makedirs(os.path.dirname(TREE), exist_ok=True)
        sh("git -C /repo worktree add -q --detach %s HEAD" % TREE)
    sh("git -C %s checkout -q -- . && git -C %s checkout -q --detach $(git -C /repo rev-parse HEAD)" % (TREE, TREE))
    rnd = random.Random(seed)
    cands = []
    for path, lo, hi, checks in REGIONS:
        for c in candidates(path, lo, hi):
            cands.append((c, checks))
    rnd.shuffle(cands)
    results = []
    done = 0
    for m, checks in cands:
        if done >= n:
            break
        sh("git -C %s checkout -q -- ." % TREE)
        apply(m)
        diff = sh("git -C %s diff -U0" % TREE).stdout
        if not diff.strip():
            continue
        if sh("%s -m py_compile %s" % ("/venv/bin/python", os.path.join(TREE, m[0]))).returncode:
            continue
        t = sh("cd %s && PYTHONPATH=%s /venv/bin/python -m pytest -q -x -p no:cacheprovider --timeout=900 2>&1 | tail -1" % (TREE, TREE)).stdout
        rec = {"mutation": m[5], "file": m[0], "line": m[1], "diff": diff[-600:], "checks": {}}
        if " passed" not in t or "failed" in t or "error" in t:
            rec["verdict"] = "killed by the pinned tests"
            results.append(rec)
            continue
        r = sh("cd %s && PYTHONPATH=%s timeout 600 /venv/bin/python tests/main.py > /dev/null 2>&1; echo $?" % (TREE, TREE)).stdout.strip()
        if r != "0":
            rec["verdict"] = "killed by tests/main.py"
            results.append(rec)
            continue
        done += 1
        rec["verdict"] = "survived"
        for chk in checks:
            t0 = time.time()
            p = sh("cd %s && VERIF_SEED=1 VERIF_REPO=%s ./check %s quick 2>&1 | grep -E '^(VIOLATION|HARNESS-ERROR)' | head -3" % (VERIF, TREE, chk))
            viol = [l for l in p.stdout.splitlines() if l.startswith("VIOLATION")]
            herr = [l for l in p.stdout.splitlines() if l.startswith("HARNESS-ERROR")]
            rec["checks"][chk] = {"violations": len(viol), "harness_errors": len(herr), "s": round(time.time() - t0)}
            if viol:
                rec["verdict"] = "killed by %s" % chk
                break
            if herr and rec["verdict"] == "survived":
                rec["verdict"] = "noticed (exit 3) by %s, no violation" % chk
        print("%-40s %s:%d  %s" % (rec["verdict"], m[0], m[1], m[5]), flush=True)
        results.append(rec)
        json.dump(results, open(out_path, "w"), indent=1)
    sh("git -C %s checkout -q -- ." % TREE)
    json.dump(results, open(out_path, "w"), indent=1)
    tested = [r for r in results if not r["verdict"].startswith("killed by the pinned") and not r["verdict"].startswith("killed by tests/")]
    print("mutants given to the checks: %d; killed: %d; noticed only: %d; survived: %d; (killed by the existing tests before: %d)" % (
        len(tested), sum(r["verdict"].startswith("killed by C") for r in tested),
        sum(r["verdict"].startswith("noticed") for r in tested), sum(r["verdict"] == "survived" for r in tested),
        len(results) - len(tested)))


if __name__ == "__main__":
    main()
