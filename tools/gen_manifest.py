#!/usr/bin/env python3
"""Regenerates /verif/MANIFEST.json from the table below (single source of truth for the interface)."""
import json
import os

ROOT = os.path.dirname(os.path.dirname(os.path.abspath(__file__)))

CHECKS = {
    "C10": dict(
        category="model_checking",
        text="Bounded symbolic model checking of the real scheduler: all range geometries (solver variables) for "
             "every assignment of <=3 (thorough: 4) rewrites to 2 rule groups x {default,0,1} transaction ids; the "
             "statement's clauses (atomic, disjoint, dropped-only-for-a-stated-reason, ignored lines, right-to-left "
             "order) are z3 formulas decided on every path; rollback decided on the real _apply_rewrites with "
             "solver-chosen validity outcomes; every path replayed end to end through processing.fix/chain.",
        design_ref="DESIGN.md section 4 / C10",
        note="Trusted: z3, the proxies in vk/sym.py (counterexamples are replayed on the unmodified package before "
             "being reported), the 60-line clause-by-clause specification in vk/harness/c10.py. Bounded: <=4 rewrites, "
             "<=2 groups, one 3-line layout with/without an annotated line.",
        technique="symbolic execution of the real scheduler with z3 (ranges symbolic), clause-wise assertions, replay",
    ),
    "C12": dict(
        category="model_checking",
        text="Bounded symbolic model checking of the real matcher: (a) core._match_list on words of symbolic letters "
             "against every quantifier template up to length 3 (thorough 4) with z3's sequence-regex theory (InRe) as "
             "oracle; (b) named wildcards as back-references against a disjunction over segmentations; (c)/(d) "
             "compile_template + match_template + finditer on parsed code whose integer constants are marker literals "
             "(solver variables), against an independently written structural matcher that returns a z3 formula, at "
             "every node / statement window of the source (completeness and 'nothing else'), plus self-matching.",
        design_ref="DESIGN.md section 4 / C12",
        note="Trusted: z3 (incl. its regex theory), proxies, the ~120-line reference matcher in vk/harness/c12.py written "
             "from the statement. For *named* ?,*,+ wildcards the statement admits two readings (elements arbitrary / "
             "all the same tree); the check demands only what both imply. Bounded: template and word lengths, the "
             "enumerated pattern/source shapes; patterns that are a single wildcard are outside.",
        technique="symbolic execution of the real matcher with z3 (letters / constants symbolic) vs regex theory and a reference matcher",
    ),
    "C15": dict(
        category="model_checking",
        text="Bounded symbolic model checking of the real core.literal_value: every expression shape of depth 1 "
             "(~6900) plus a seed-chosen sample of depth 2 (thorough: depth 3 sample) with integer/boolean leaves as "
             "solver variables (all integers, LIA); oracle = Python's own evaluation of the same expression over the "
             "same proxies; effectful builtins are recording stubs so 'evaluation has effects' is observable.",
        design_ref="DESIGN.md section 4 / C15",
        note="Trusted: z3, the proxies (fidelity self-test: 400 expressions with concrete values through plain Python "
             "and through pinned proxies must agree; every counterexample replayed with ordinary literals on the "
             "unmodified package). Bounded: expression depth, concrete string/container leaves, exponents/shifts/bit "
             "operations in -3..6.",
        technique="symbolic execution of literal_value with z3 (leaves symbolic) vs Python's evaluation on the same proxies",
    ),
    "C17": dict(
        category="model_checking",
        text="Symbolic-literal run of the real rules (simplify_boolean_expressions, ..._symmath, "
             "simplify_constrained_range, simplify_math_iterators, swap_if_else/early_continue negation, "
             "replace_negated_numeric_comparison, remove_redundant_boolop_values, singleton_eq_comparison): constants "
             "are marker literals = solver variables over all naturals < 10**6, variables are arbitrary integers; on "
             "every path of the rule the original and the rewritten program are executed symbolically and z3 decides "
             "equality of the printed values for all literal and variable values at once.",
        design_ref="DESIGN.md section 4 / C17",
        note="Trusted: z3, proxies, CPython as the semantics of both programs; counterexamples are replayed as closed "
             "concrete programs through the unmodified rule and the real interpreter. Bounded: formula families (2-3 "
             "comparisons, sympy formulas up to size 3/4), range box 0..6.",
        technique="symbolic literals through the real rule + symbolic translation validation with z3 (LIA)",
    ),
}

NOT_APPLICABLE = {
    "C11": "Layout stages are str.expandtabs / rmspace / re.sub / black / difflib over the whole file text and the "
           "oracle is Python's tokenizer: no solver variable reaches the code under check (a bounded symbolic string "
           "cannot pass through any of them); applying the engine would be concrete testing under another name.",
    "C18": "Import normalisation consults the file system and importlib; the quantifier is over package layouts on "
           "disk and the oracle is object identity after real imports. No symbolic input exists.",
}

ALL = ["C%02d" % i for i in range(1, 21)]


def main():
    checks = []
    for pid in ALL:
        c = CHECKS.get(pid)
        if not c:
            continue
        checks.append({
            "property_id": pid,
            "quick_cmd": "./check %s quick" % pid,
            "thorough_cmd": "./check %s thorough" % pid,
            "evidence_file": "/verif/evidence/%s.json" % pid,
            "replay_cmd_template": "./check %s quick --replay {path}" % pid,
            "engine": "symx",
            "level_claimed": {"category": c["category"], "text": c["text"], "design_ref": c["design_ref"]},
            "level_note": c["note"],
            "technique": c["technique"],
        })
    na = []
    for pid in ALL:
        if pid in CHECKS:
            continue
        reason = NOT_APPLICABLE.get(pid, "check not built yet in this session (see DESIGN.md build order); not claimed")
        na.append({"property_id": pid, "reason": reason})
    manifest = {
        "version": 1,
        "setup_cmd": "./setup.sh",
        "hooks": {
            "guard": "PYREFACT_VERIF",
            "enable": "none needed: instrumentation is applied by a source-transforming importer at load time "
                      "(vk/instrument.py); no hook commits exist in /repo",
            "baseline_off_cmd": "cd /repo && /venv/bin/python -m pytest -ra -q -p no:cacheprovider --timeout=900 "
                                "--continue-on-collection-errors",
            "source_commits": [],
            "add_only": True,
        },
        "engines": [
            {"name": "symx", "path": "/verif/vk/sym.py",
             "serves_properties": sorted(CHECKS),
             "kind_free_text": "proxy-based symbolic executor over z3 5.1 running the real pyrefact functions "
                               "(instrumented import from /repo's working tree on every run); DFS with decision "
                               "replay; counterexamples replayed on the unmodified package"},
        ],
        "checks": checks,
        "not_applicable": na,
        "notes": "Exit codes: 0 held on everything explored; 1 + VIOLATION line; 3 = HARNESS-ERROR (harness could not "
                 "bind to the code, engine gap, vacuous obligation) - never a VIOLATION and never success. Known "
                 "findings: /verif/known_findings.json.",
    }
    with open(os.path.join(ROOT, "MANIFEST.json"), "w") as f:
        json.dump(manifest, f, indent=1)
        f.write("\n")


if __name__ == "__main__":
    main()
