#!/usr/bin/env python3
"""Regenerates /verif/MANIFEST.json from the table below (single source of truth for the interface)."""
import json
import os

ROOT = os.path.dirname(os.path.dirname(os.path.abspath(__file__)))

CHECKS = {
    "C10": dict(
        category="model_checking",
        text="Bounded symbolic model checking of the real scheduler: all range geometries (solver variables) for "
             "every assignment of <=3 (thorough: 4) rewrites to 2 rule groups x {default,0,1} transaction ids (and {0,1,2} in "
             "every yield order within one rule); the "
             "statement's clauses (atomic, disjoint, dropped-only-for-a-stated-reason, ignored lines, right-to-left "
             "order) are z3 formulas decided on every path; rollback decided on the real _apply_rewrites with "
             "solver-chosen validity outcomes; every path replayed end to end through processing.fix/chain.",
        design_ref="DESIGN.md section 4 / C10",
        note="Trusted: z3, the proxies in vk/sym.py (counterexamples are replayed on the unmodified package before "
             "being reported), the 60-line clause-by-clause specification in vk/harness/c10.py. Bounded: <=4 rewrites, "
             "<=2 groups, one 3-line layout with/without an annotated line.",
        technique="symbolic execution of the real scheduler with z3 (ranges symbolic), clause-wise assertions, replay",
    ),
    "C12": dict(
        category="model_checking",
        text="Bounded symbolic model checking of the real matcher: (a) core._match_list on words of symbolic letters "
             "against every quantifier template up to length 3 (thorough 4) with z3's sequence-regex theory (InRe) as "
             "oracle; (b) named wildcards as back-references against a disjunction over segmentations; (c)/(d) "
             "compile_template + match_template + finditer on parsed code whose integer constants are marker literals "
             "(solver variables), against an independently written structural matcher that returns a z3 formula, at "
             "every node / statement window of the source (completeness and 'nothing else'), plus self-matching.",
        design_ref="DESIGN.md section 4 / C12",
        note="Trusted: z3 (incl. its regex theory), proxies, the ~120-line reference matcher in vk/harness/c12.py written "
             "from the statement. For *named* ?,*,+ wildcards the statement admits two readings (elements arbitrary / "
             "all the same tree); the check demands only what both imply. Bounded: template and word lengths, the "
             "enumerated pattern/source shapes; patterns that are a single wildcard are outside.",
        technique="symbolic execution of the real matcher with z3 (letters / constants symbolic) vs regex theory and a reference matcher",
    ),
    "C15": dict(
        category="model_checking",
        text="Bounded symbolic model checking of the real core.literal_value: every expression shape of depth 1 "
             "(~6900) plus a seed-chosen sample of depth 2 (thorough: depth 3 sample) with integer/boolean leaves as "
             "solver variables (all integers, LIA); oracle = Python's own evaluation of the same expression over the "
             "same proxies; effectful builtins are recording stubs so 'evaluation has effects' is observable. Consumers: "
             "every comparison of two constants from 16 literal kinds (symbolic ints, floats, NaN, sets, mixed types) in "
             "seven positions of a closed program through the folding rules and the pipeline, decided by symbolic "
             "translation validation.",
        design_ref="DESIGN.md section 4 / C15, 13.1",
        note="Trusted: z3, the proxies (fidelity self-test: 400 expressions with concrete values through plain Python "
             "and through pinned proxies must agree; every counterexample replayed with ordinary literals on the "
             "unmodified package). Bounded: expression depth, concrete string/container leaves, exponents/shifts/bit "
             "operations in -3..6.",
        technique="symbolic execution of literal_value with z3 (leaves symbolic) vs Python's evaluation on the same proxies",
    ),
    "C17": dict(
        category="model_checking",
        text="Symbolic-literal run of the real rules (simplify_boolean_expressions, ..._symmath, "
             "simplify_constrained_range, simplify_math_iterators, swap_if_else/early_continue negation, "
             "replace_negated_numeric_comparison, remove_redundant_boolop_values, singleton_eq_comparison): constants "
             "are marker literals = solver variables over all naturals < 10**6, variables are arbitrary integers; on "
             "every path of the rule the original and the rewritten program are executed symbolically and z3 decides "
             "equality of the printed values for all literal and variable values at once.",
        design_ref="DESIGN.md section 4 / C17",
        note="Trusted: z3, proxies, CPython as the semantics of both programs; counterexamples are replayed as closed "
             "concrete programs through the unmodified rule and the real interpreter. Bounded: formula families (2-3 "
             "comparisons, sympy formulas up to size 3/4), range box 0..6.",
        technique="symbolic literals through the real rule + symbolic translation validation with z3 (LIA)",
    ),

    "C01": dict(
        category="translation_validation",
        text="Symbolic translation validation of the whole real pipeline: format_code (16 option combinations) is run in "
             "symbolic-literal mode on closed programs (repository before-snippets auto-closed with symbolic inputs, "
             "grammar-enumerated programs, literal-sensitive families); original and refactored program are executed "
             "symbolically and z3 decides trace equality + normal termination for all inputs / tape values / literals "
             "of the path.",
        design_ref="DESIGN.md section 4 / C01",
        note="Trusted: z3, proxies, CPython as semantics of both programs; every counterexample replayed as a closed "
             "concrete program through the unmodified pipeline and the real interpreter. Bounded: inputs -3..3, tape <= 12, "
             "fuel <= 600, the program families.",
        technique="symbolic literals through the real pipeline + symbolic translation validation with z3",
    ),
    "C02": dict(
        category="translation_validation",
        text="The same oracle with T = one rule (every rule named in main.py, read at run time, composed with the "
             "pipeline's own import completion): own before-snippets, every rule on a pool sample, literal-sensitive "
             "rules on their symbolic-literal families, ~330 hand-written closed programs per rule (incl. numpy / pandas rules).",
        design_ref="DESIGN.md section 4 / C02, 13.1",
        note="As C01. numpy rules run with the real numpy on object arrays of proxies; pandas rules run against the vendored "
             "reference shim shims/pandas.py (pandas is not installed; the shim is part of the trusted base of those "
             "obligations); import rules are not exercised (listed in evidence). A (rule, program) pair counts only when the "
             "rule changes the text.",
        technique="symbolic translation validation per rule with z3",
    ),
    "C03": dict(
        category="model_checking",
        text="Bounded symbolic model checking of the validity guards on the real functions with the un-encodable callee "
             "replaced by solver-chosen outcomes (_apply_rewrites, _replace_nodes, format_file write guard, fix/chain "
             "with symbolic ranges and solver-chosen replacement texts, sub), plus the pool obligation 'output parses on "
             "every path of the symbolic-literal run'.",
        design_ref="DESIGN.md section 4 / C03",
        note="Stubs listed in evidence. The universal claim over all texts is out of reach (ast.parse is C); the pool "
             "obligation has a degenerate symbolic dimension (branched_on reported).",
        technique="symbolic execution of guard logic with nondeterministic stubs (z3) + pool obligation",
    ),
    "C04": dict(
        category="model_checking",
        text="Totality kernels decided symbolically: literal_value raises only ValueError (symbolic leaves), scheduler "
             "offset arithmetic for synthesised insertion positions (symbolic line/column incl. one past the end), "
             "_do_rewrite candidate selection with validity a solver Boolean, loop budgets with a solver-chosen number "
             "of changing passes; pool obligation 'nothing escapes' over rule patterns at every file position, over programs "
             "with each physical line opted out in turn, and over a concrete family of extreme constants (ranges of 2**63 "
             "elements, float overflow, digit limits).",
        design_ref="DESIGN.md section 4 / C04",
        note="Whole-input totality over all strings and termination of the self-recursive text rules are outside.",
        technique="symbolic execution of totality kernels with z3 + pool obligation",
    ),
    "C05": dict(
        category="model_checking",
        text="One inductive step instead of histories: on every path of the symbolic-literal run, after the call every "
             "tree handed out by the cached core.parse still dumps like a fresh parse (representation invariant), and a "
             "second / third call (after an interposed history incl. a rolled-back transaction) returns the identical text; "
             "plus a fresh-vs-history differential in two forked children (the text alone / relatives of the text formatted "
             "first) for state that lives outside the caches.",
        design_ref="DESIGN.md section 4 / C05, 13.1",
        note="Degenerate symbolic dimension (literals only), stated in evidence; the fork differential is concrete. Eviction "
             "order outside.",
        technique="inductive cache-invariant check on symbolic-literal runs",
    ),
    "C06": dict(
        category="model_checking",
        text="Scheduler order-independence lemmas over all permutations of the yield order with symbolic ranges; "
             "format_files bookkeeping against a sequential reference model with the pool stubbed by starmap's contract "
             "and a solver-chosen execution order and 'changed' bits; hash-seed witness runs.",
        design_ref="DESIGN.md section 4 / C06",
        note="Whether an individual rule's set iteration reaches the output is outside; rests on C05 for long-lived workers.",
        technique="symbolic execution of scheduler / format_files with z3 over all yield and execution orders",
    ),
    "C07": dict(
        category="model_checking",
        text="format_code(safe=True) in symbolic-literal mode on libraries built to provoke every deleting/renaming rule; "
             "a hidden observer resolves every name of the public surface in the executed output.",
        design_ref="DESIGN.md section 4 / C07",
        note="Degenerate symbolic dimension (one path = one concrete run for most libraries), stated in evidence.",
        technique="pool obligation with hidden observer on symbolic-literal runs",
    ),
    "C08": dict(
        category="translation_validation",
        text="Library + client pairs: preserve set from the real _used_names_in_file, format_code(preserve=S) once/twice "
             "and the real CLI on files; symbolic translation validation of L;K against L';K for all client inputs.",
        design_ref="DESIGN.md section 4 / C08",
        note="CLI path runs pyrefact concretely (markers pinned); pool stubbed in-process.",
        technique="symbolic translation validation of library+client with z3",
    ),
    "C09": dict(
        category="model_checking",
        text="Antisymmetry of _orelse_preferred_as_body on abstract branches with symbolic statement kinds (z3), cycle-cut "
             "idempotence of format_code with _multi_run_fixes a solver-chosen table, and six successive applications on "
             "every path of the symbolic-literal run over the pool.",
        design_ref="DESIGN.md section 4 / C09",
        note="Lemma counterexamples are concretised and replayed as real ping-pong before being reported.",
        technique="symbolic execution of the orientation heuristic and the fix-point loop with z3 + pool obligation",
    ),
    "C13": dict(
        category="model_checking",
        text="Match._lineno_col_offset for a symbolic span start and get_charnos for symbolic node positions over line "
             "layouts (CRLF, form feed, U+2028, non-ASCII) against an independent line model; API coherence and per-match "
             "geometry on sources with symbolic constants.",
        design_ref="DESIGN.md section 4 / C13",
        note="get_charnos part concretises at the string slice (bounded enumeration through the solver, labelled).",
        technique="symbolic execution of offset arithmetic with z3 vs independent line model",
    ),
    "C14": dict(
        category="model_checking",
        text="subn with a symbolic count (all integers); self-substitution / permuting replacements / untouched lines / "
             "ignore lines on sources whose constants are solver variables.",
        design_ref="DESIGN.md section 4 / C14",
        note="Exact-tree clause only for disjoint matches; enumerated shapes.",
        technique="symbolic execution of subn / sub with z3 (count and constants symbolic)",
    ),
    "C16": dict(
        category="model_checking",
        text="is_blocking on every statement shape of nesting <= 2 (thorough 3) with constant, symbolic-literal and tape "
             "tests: where it answers True the next statement is unreachable under every tape valuation; consumers "
             "(delete_unreachable_code, delete_pointless_statements, ...) by symbolic translation validation.",
        design_ref="DESIGN.md section 4 / C16",
        note="Tape functions do not raise; fuel 300.",
        technique="symbolic execution of the analyses + symbolic translation validation with z3",
    ),
    "C19": dict(
        category="translation_validation",
        text="Symbolic translation validation of format_code (unsafe) and the renaming rules on programs with "
             "adversarially drawn identifiers bound in every way Python allows; duplicate detection with symbolic "
             "constants plus concrete hash-collision witnesses.",
        design_ref="DESIGN.md section 4 / C19",
        note="Identifiers are concrete strings (regex on symbolic str is out of reach).",
        technique="symbolic translation validation with z3 on adversarial identifier families",
    ),
    "C20": dict(
        category="model_checking",
        text="has_ignore_comment for symbolic ranges vs an independent line model, scheduler clause 'ignored line "
             "untouched' for all range geometries, _do_rewrite on annotated lines, and the pool obligation 'annotated line "
             "verbatim in the output' for every physical line of rule-specific skeletons (incl. direct-edit rules).",
        design_ref="DESIGN.md section 4 / C20",
        note="Pool part has a degenerate symbolic dimension.",
        technique="symbolic execution of range logic with z3 + pool obligation",
    ),
}

NOT_APPLICABLE = {
    "C11": "Layout stages are str.expandtabs / rmspace / re.sub / black / difflib over the whole file text and the "
           "oracle is Python's tokenizer: no solver variable reaches the code under check (a bounded symbolic string "
           "cannot pass through any of them); applying the engine would be concrete testing under another name.",
    "C18": "Import normalisation consults the file system and importlib; the quantifier is over package layouts on "
           "disk and the oracle is object identity after real imports. No symbolic input exists.",
}

ALL = ["C%02d" % i for i in range(1, 21)]


def main():
    checks = []
    for pid in ALL:
        c = CHECKS.get(pid)
        if not c:
            continue
        checks.append({
            "property_id": pid,
            "quick_cmd": "./check %s quick" % pid,
            "thorough_cmd": "./check %s thorough" % pid,
            "evidence_file": "/verif/evidence/%s.json" % pid,
            "replay_cmd_template": "./check %s quick --replay {path}" % pid,
            "engine": "symx",
            "level_claimed": {"category": c["category"], "text": c["text"], "design_ref": c["design_ref"]},
            "level_note": c["note"],
            "technique": c["technique"],
        })
    na = []
    for pid in ALL:
        if pid in CHECKS:
            continue
        reason = NOT_APPLICABLE.get(pid, "check not built yet in this session (see DESIGN.md build order); not claimed")
        na.append({"property_id": pid, "reason": reason})
    manifest = {
        "version": 1,
        "setup_cmd": "./setup.sh",
        "hooks": {
            "guard": "PYREFACT_VERIF",
            "enable": "none needed: instrumentation is applied by a source-transforming importer at load time "
                      "(vk/instrument.py); no hook commits exist in /repo",
            "baseline_off_cmd": "cd /repo && /venv/bin/python -m pytest -ra -q -p no:cacheprovider --timeout=900 "
                                "--continue-on-collection-errors",
            "source_commits": [],
            "add_only": True,
        },
        "engines": [
            {"name": "symx", "path": "/verif/vk/sym.py",
             "serves_properties": sorted(CHECKS),
             "kind_free_text": "proxy-based symbolic executor over z3 5.1 running the real pyrefact functions "
                               "(instrumented import from /repo's working tree on every run); DFS with decision "
                               "replay; counterexamples replayed on the unmodified package; the first unsat claim of "
                               "every obligation is re-decided by the cvc5 binary (second solver; a disagreement is a "
                               "harness error, never a verdict)"},
        ],
        "checks": checks,
        "not_applicable": na,
        "notes": "Exit codes: 0 held on everything explored; 1 + VIOLATION line; 3 = HARNESS-ERROR (harness could not "
                 "bind to the code, engine gap, vacuous obligation) - never a VIOLATION and never success. Known "
                 "findings: /verif/known_findings.json.",
    }
    with open(os.path.join(ROOT, "MANIFEST.json"), "w") as f:
        json.dump(manifest, f, indent=1)
        f.write("\n")


if __name__ == "__main__":
    main()
