#!/bin/bash
# Development aid: apply a seeded change to /repo, run checks, undo it straight afterwards.
# usage: eval_seed.sh <patch.diff> <tier> <check ids...>
patch="$1"; tier="$2"; shift 2
cd /verif
if [ -n "$(git -C /repo status --porcelain)" ]; then echo "repo not clean"; exit 9; fi
git -C /repo apply "$patch" || { echo "patch does not apply"; exit 8; }
for p in "$@"; do
  s=$(date +%s)
  ./check $p $tier > /tmp/seed_${p}.out 2>&1; rc=$?
  e=$(date +%s)
  echo "$p rc=$rc $((e-s))s violations=$(grep -c '^VIOLATION' /tmp/seed_${p}.out) harness_errors=$(grep -c '^HARNESS-ERROR' /tmp/seed_${p}.out) | $(grep -m1 -A2 '^VIOLATION' /tmp/seed_${p}.out | tr '\n' ' ' | cut -c1-300)"
done
git -C /repo checkout -- .
git -C /repo status --porcelain
