#!/usr/bin/env python3
"""Development aid: turn dumped violation keys of C01 / C02 into known findings grouped by root cause.
usage: register_groups.py <PROP> <dump.json>   (never run by a check)"""
import json, re, sys, collections

prop, dump = sys.argv[1:3]
d = json.load(open(dump))
kf = json.load(open("/verif/known_findings.json"))

GROUPS_C02 = [
    ("KF-C02-01", r"symbolic_math\.simplify_boolean_expressions/(rboolop|harvest)", "simplify_boolean_expressions folds a BoolOp with a constant operand to True/False also in value position: `1 and ''` is '' but becomes False, `x or 1 or ''` is 1 but becomes True (`x and y and f(x(3)) and not f(x(3))` -> False also drops the calls). The rule treats every BoolOp as a condition; by design."),
    ("KF-C02-02", r"replace_nested_loops_with_set_list_comp", "replace_nested_loops_with_set_list_comp eliminates the intermediate variable of the inner loop (`m = list(range(B)); l.extend(m)` -> `l.extend(b for a in .. for b in ..)`) without checking that it is unused afterwards: NameError when it is read after the loop."),
    ("KF-C02-03", r"move_before_loop", "move_before_loop hoists a loop-invariant assignment in front of a loop that may run zero times; the assignment is then executed although the loop body never ran (visible when the target already had a value or is read afterwards). Zero-trip safety needs a liveness analysis of the target."),
    ("KF-C02-04", r"singleton_eq_comparison", "singleton_eq_comparison: `e == True` -> `e is True` (see KF-C17-01)."),
    ("KF-C02-05", r"unused_zip_args", "unused_zip_args drops an unused zip() argument: `for a, _ in zip(range(3), range(1, 3))` -> `for a in range(3)` iterates 3 times instead of 2 (zip stops at the shortest iterable)."),
    ("KF-C02-06", r"replace_for_loops_with_(set_list|dict)_comp/loopvar", "replace_for_loops_with_*_comp turns a loop into a comprehension without checking that the loop variable is not used after the loop (a comprehension does not leak it): NameError."),
    ("KF-C02-07", r"fix_unconventional_class_definitions", "fix_unconventional_class_definitions moves `Foo.y = z` into the class body as `y = z` while `z` is assigned after the class: NameError at class creation."),
    ("KF-C02-08", r"fixes\.remove_dead_ifs", "remove_dead_ifs replaces a generator expression whose filter is constant-false by the empty tuple `()` (the maintainers' comment calls this 'semantically equivalent and more readable'): the value is a tuple instead of a generator."),
    ("KF-C02-09", r"simplify_math_iterators", "simplify_math_iterators closed forms (see KF-C17-02)."),
    ("KF-C02-10", r"remove_redundant_comprehensions", "remove_redundant_comprehensions rewrites `(u for u in xs)` to `iter(xs)` / `{x: y for x, y in zip(..)}` to `dict(zip(..))` etc.; when the comprehension variable is read later in the same snippet the rewritten code fails (NameError) and a generator becomes a plain iterator."),
    ("KF-C02-11", r"simplify_boolean_expressions_symmath", "simplify_boolean_expressions_symmath applies sympy's boolean simplification to operands with side effects / non-boolean values: evaluation order and the number of calls change."),
]
GROUPS_C01 = [
    ("KF-C01-01", r"/blk/", None),
    ("KF-C01-02", r"/grammar/", None),
    ("KF-C01-03", r"/loopvar/|replace_nested_loops|replace_for_loops", None),
    ("KF-C01-04", r"singleton_comparison", None),
    ("KF-C01-05", r"unused_zip_args", None),
    ("KF-C01-06", r"replace_dict_(update|assign)", None),
    ("KF-C01-07", r"simplify_boolean_expressions|simplify_math_iterators|remove_dead_ifs|fix_unconventional", None),
    ("KF-C01-08", r"implicit_defaultdict", None),
    ("KF-C01-09", r"/pointless/", None),
]
GROUPS = {"C02": GROUPS_C02, "C01": GROUPS_C01}


def c01_globs(keys):
    """fc/<opts>/<rest>: the option string is s<safe>k<keep_imports>p<preserve>l<len>; a snippet that fails for
    every option combination is listed as fc/*/<rest>, one that fails only without safe mode as fc/s0*/<rest>."""
    by = collections.defaultdict(set)
    for k in keys:
        _, opts, rest = k.split("/", 2)
        by[rest].add(opts)
    out = set()
    for rest, opts in by.items():
        if any(o.startswith("s1") for o in opts) and any(o.startswith("s0") for o in opts):
            out.add("fc/*/" + rest)
        elif all(o.startswith("s0") for o in opts):
            out.add("fc/s0*/" + rest)
        else:
            out.add("fc/s1*/" + rest)
    return out

def main():
    groups = GROUPS.get(prop)
    rest = []
    by = collections.defaultdict(set)
    for v in d["violations"]:
        k = v["key"]
        for fid, pat, what in groups:
            if re.search(pat, k):
                by[fid].add(k)
                break
        else:
            rest.append(k)
    old = {f["id"]: f for f in kf["findings"] if f["property"] == prop}
    kf["findings"] = [f for f in kf["findings"] if not (f["property"] == prop and f["id"] in {g[0] for g in groups})]
    for fid, pat, what in groups:
        if what is None:
            what = old[fid]["what"]
        if prop == "C01":
            by[fid] = c01_globs(by[fid])
        if "--replace" not in sys.argv and fid in old:
            by[fid] = set(by[fid]) | set(old[fid]["keys"])
        if by[fid]:
            kf["findings"].append({"id": fid, "property": prop, "keys": sorted(by[fid]), "what": what, "status": "open"})
            print(fid, len(by[fid]))
    json.dump(kf, open("/verif/known_findings.json", "w"), indent=1)
    print("UNGROUPED:", rest)

main()
