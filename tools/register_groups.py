#!/usr/bin/env python3
"""Development aid: turn dumped violation keys of C01 / C02 into known findings grouped by root cause.
usage: register_groups.py <PROP> <dump.json>   (never run by a check)"""
import json, re, sys, collections

prop, dump = sys.argv[1:3]
d = json.load(open(dump))
kf = json.load(open("/verif/known_findings.json"))

GROUPS_C02 = [
    ("KF-C02-12", r"fam/.*delete_unused_functions_and_classes/(class-body-effect|init-subclass|registering-decorator)", "delete_unused_functions_and_classes deletes every definition that is not referenced by name: a class whose body calls user code when the class statement runs (`class Unused: k = effect()`), a subclass that registers itself through `__init_subclass__`, and a function registered by its decorator are removed, so their effects disappear. 'Unused' is decided by name references only; by design."),
    ("KF-C02-13", r"fam/.*implicit_defaultdict/read-missing-key-later", "implicit_defaultdict: the variable is a collections.defaultdict afterwards, so a later read of a missing key inserts it instead of raising KeyError (see KF-C01-08)."),
    ("KF-C02-14", r"fam/.*inline_math_comprehensions/dependency-mutated-by-call", "inline_math_comprehensions moves a comprehension to its single use although a call in between mutates the list it iterates over (`z = [x * 2 for x in xs]; grow(); t = sum(z)`): only names that appear textually between definition and use are checked."),
    ("KF-C02-15", r"fam/.*remove_duplicate_dict_keys/order", "remove_duplicate_dict_keys keeps the *last* occurrence of a repeated constant key: `{1: a, 2: 0, 1: b}` becomes `{2: 0, 1: b}`, whose iteration order is [2, 1] instead of [1, 2] (Python keeps the position of the first occurrence). The repository's own integration example expects this output."),
    ("KF-C02-16", r"fam/.*replace_dict_assign_with_dict_literal/evaluation-order", "replace_dict_assign_with_dict_literal: `d[k()] = v()` evaluates v() before k(), the dict display `{k(): v()}` evaluates k() first; with effectful key and value the order of effects changes."),
    ("KF-C02-17", r"fam/.*replace_with_filter/loopvar-after", "replace_with_filter turns `for x in xs: if x: ...` into `for x in filter(None, xs): ...`; the loop variable read after the loop is then the last *truthy* element instead of the last element (loop-variable family, see KF-C02-06)."),
    ("KF-C02-18", r"fam/.*simplify_redundant_lambda/(late-binding|rebound-global)", "simplify_redundant_lambda replaces `lambda q: h(q)` by `h`: the lambda looks `h` up at call time, the replacement binds it at definition time, so rebinding `h` afterwards (local or global) is no longer seen."),
    ("KF-C02-19", r"fam/.*simplify_transposes/zipzip", "simplify_transposes replaces `zip(*zip(*arr))` by `arr`: rows stay lists instead of becoming tuples and ragged rows are no longer truncated to the shortest (the repository's own unit test expects this rewrite)."),
    ("KF-C02-20", r"fam/.*move_staticmethod_static_scope/subclass-override", "move_staticmethod_static_scope rewrites `self.helper(x)` to a call of the extracted module-level function, which bypasses an override of the static method in a subclass."),
    ("KF-C02-21", r"fam/.*remove_unused_self_cls/(called-via-class|overridden)", "remove_unused_self_cls makes a method that does not use `self` a staticmethod: explicit calls through the class with an instance argument (`A.m(a, x)`) and overrides in subclasses that still take `self` then fail with TypeError."),
    ("KF-C02-22", r"fam/.*remove_redundant_chained_calls/reversed-ties", "remove_redundant_chained_calls: `reversed(sorted(xs, key=k))` becomes `sorted(xs, key=k, reverse=True)`; elements with equal keys keep their original relative order instead of being reversed."),
    ("KF-C02-23", r"fam/.*remove_redundant_iter/mutated-in-comprehension-call", "remove_redundant_iter removes the copy in `[drop(x) for x in list(xs)]` although the element expression calls a function that mutates xs (only loop bodies that mention the iterable by name are recognised)."),
    ("KF-C02-24", r"fam/.*replace_sorted_heapq/ties-key", "replace_sorted_heapq: `sorted(ps, key=k)[-1]` becomes `max(ps, key=k)`: among elements with the maximal key, sorted()[-1] is the last one and max() the first."),
    ("KF-C02-01", r"symbolic_math\.simplify_boolean_expressions/(rboolop|harvest)", "simplify_boolean_expressions folds a BoolOp with a constant operand to True/False also in value position: `1 and ''` is '' but becomes False, `x or 1 or ''` is 1 but becomes True (`x and y and f(x(3)) and not f(x(3))` -> False also drops the calls). The rule treats every BoolOp as a condition; by design."),
    ("KF-C02-02", r"replace_nested_loops_with_set_list_comp", "replace_nested_loops_with_set_list_comp eliminates the intermediate variable of the inner loop (`m = list(range(B)); l.extend(m)` -> `l.extend(b for a in .. for b in ..)`) without checking that it is unused afterwards: NameError when it is read after the loop."),
    ("KF-C02-03", r"move_before_loop", "move_before_loop hoists a loop-invariant assignment in front of a loop that may run zero times; the assignment is then executed although the loop body never ran (visible when the target already had a value or is read afterwards). Zero-trip safety needs a liveness analysis of the target."),
    ("KF-C02-04", r"singleton_eq_comparison", "singleton_eq_comparison: `e == True` -> `e is True` (see KF-C17-01)."),
    ("KF-C02-05", r"unused_zip_args", "unused_zip_args drops an unused zip() argument: `for a, _ in zip(range(3), range(1, 3))` -> `for a in range(3)` iterates 3 times instead of 2 (zip stops at the shortest iterable)."),
    ("KF-C02-06", r"replace_for_loops_with_(set_list|dict)_comp/loopvar", "replace_for_loops_with_*_comp turns a loop into a comprehension without checking that the loop variable is not used after the loop (a comprehension does not leak it): NameError."),
    ("KF-C02-07", r"fix_unconventional_class_definitions", "fix_unconventional_class_definitions moves `Foo.y = z` into the class body as `y = z` while `z` is assigned after the class: NameError at class creation."),
    ("KF-C02-08", r"fixes\.remove_dead_ifs", "remove_dead_ifs replaces a generator expression whose filter is constant-false by the empty tuple `()` (the maintainers' comment calls this 'semantically equivalent and more readable'): the value is a tuple instead of a generator."),
    ("KF-C02-09", r"simplify_math_iterators", "simplify_math_iterators closed forms (see KF-C17-02)."),
    ("KF-C02-10", r"remove_redundant_comprehensions", "remove_redundant_comprehensions rewrites `(u for u in xs)` to `iter(xs)` / `{x: y for x, y in zip(..)}` to `dict(zip(..))` etc.; when the comprehension variable is read later in the same snippet the rewritten code fails (NameError) and a generator becomes a plain iterator."),
    ("KF-C02-11", r"simplify_boolean_expressions_symmath", "simplify_boolean_expressions_symmath applies sympy's boolean simplification to operands with side effects / non-boolean values: evaluation order and the number of calls change."),
]
GROUPS_C01 = [
    ("KF-C01-10", r"/rulefam/", "Rule-level design findings of the hand-written per-rule programs seen through the whole pipeline (same programs, same failures as KF-C02-05 and KF-C02-12..24: deletion of definitions with import-time effects, defaultdict reads, comprehension inlining across a mutating call, dict key order, evaluation order of dict displays, stability of sorted/reversed/max with ties, removed copies, late binding of lambdas, zip(*zip(*x)), static-method extraction vs overrides, loop variable after filter(), reordered effectful tests in simplify_if_control_flow)."),
    ("KF-C01-01", r"/blk/", None),
    ("KF-C01-02", r"/grammar/", None),
    ("KF-C01-03", r"/loopvar/|replace_nested_loops|replace_for_loops", None),
    ("KF-C01-04", r"singleton_comparison", None),
    ("KF-C01-05", r"unused_zip_args", None),
    ("KF-C01-06", r"replace_dict_(update|assign)", None),
    ("KF-C01-07", r"simplify_boolean_expressions|simplify_math_iterators|remove_dead_ifs|fix_unconventional", None),
    ("KF-C01-08", r"implicit_defaultdict", None),
    ("KF-C01-09", r"/pointless/", None),
]
GROUPS = {"C02": GROUPS_C02, "C01": GROUPS_C01}


def c01_globs(keys):
    """fc/<opts>/<rest>: the option string is s<safe>k<keep_imports>p<preserve>l<len>; a snippet that fails for
    every option combination is listed as fc/*/<rest>, one that fails only without safe mode as fc/s0*/<rest>."""
    by = collections.defaultdict(set)
    for k in keys:
        _, opts, rest = k.split("/", 2)
        by[rest].add(opts)
    out = set()
    for rest, opts in by.items():
        if any(o.startswith("s1") for o in opts) and any(o.startswith("s0") for o in opts):
            out.add("fc/*/" + rest)
        elif all(o.startswith("s0") for o in opts):
            out.add("fc/s0*/" + rest)
        else:
            out.add("fc/s1*/" + rest)
    return out

def main():
    groups = GROUPS.get(prop)
    rest = []
    by = collections.defaultdict(set)
    for v in d["violations"]:
        k = v["key"]
        for fid, pat, what in groups:
            if re.search(pat, k):
                by[fid].add(k)
                break
        else:
            rest.append(k)
    old = {f["id"]: f for f in kf["findings"] if f["property"] == prop}
    kf["findings"] = [f for f in kf["findings"] if not (f["property"] == prop and f["id"] in {g[0] for g in groups})]
    for fid, pat, what in groups:
        if what is None or fid in old:
            what = old[fid]["what"] if fid in old else what
        if prop == "C01":
            by[fid] = c01_globs(by[fid])
        if "--replace" not in sys.argv and fid in old:
            by[fid] = set(by[fid]) | set(old[fid]["keys"])
        if by[fid]:
            kf["findings"].append({"id": fid, "property": prop, "keys": sorted(by[fid]), "what": what, "status": "open"})
            print(fid, len(by[fid]))
    json.dump(kf, open("/verif/known_findings.json", "w"), indent=1)
    print("UNGROUPED:", rest)

main()
