#!/usr/bin/env python3
"""Development aid: summarise replay files of a property (key, changed lines, outputs)."""
import json, sys, glob, os, difflib, re
prop = sys.argv[1]; pat = sys.argv[2] if len(sys.argv) > 2 else ""
for f in sorted(glob.glob("/verif/replays/%s/*.json" % prop)):
    c = json.load(open(f))
    if pat and pat not in c.get("key", ""): continue
    print("==", c.get("key"), " model:", {k: v for k, v in c.get("model", {}).items() if not k.startswith("tape")})
    d = c.get("replay_detail", "")
    m = re.search(r"program:\n(.*)\n--- refactored:\n(.*)\n--- before: (.*)\n--- after:  (.*)", d, re.S)
    if m:
        a, b = m.group(1).splitlines(), m.group(2).splitlines()
        for l in difflib.unified_diff(a, b, lineterm="", n=0):
            if not l.startswith(("---", "+++", "@@")): print("   ", l)
        print("    before:", m.group(3)[:150]); print("    after: ", m.group(4)[:150])
    else:
        print("   ", d[:300])
