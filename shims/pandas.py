"""Vendored reference shim of the small part of pandas that pyrefact's pandas rules talk about.

pandas is not installed in this sandbox (not in /venv, not in the wheelhouse), so the programs of the pandas
rule family run against this model - in the symbolic run (entries are proxies) and in the concrete replay alike.
It is part of the trusted base of those obligations and is deliberately narrow:

* DataFrame(dict of equally long lists[, index=labels]); unique row labels and unique column names;
  every column has dtype object (no upcasting of a row to a common dtype, which real pandas performs in
  iterrows() for mixed int/float frames - outside the model);
* df[col], df[col] = values, df.index, df.columns, df.shape, len(df), df.iterrows(), df.itertuples(),
  df.loc[label], df.loc[label, col], df.iloc[i], df.iloc[i, j], df.at[label, col], df.iat[i, j] (get and set);
  df.at[label] / df.iat[i] with a single key raise TypeError as in pandas (scalar access needs row and column);
* Series(values[, index=labels]): s[label], s.loc[label], s.at[label], s.iloc[i], s.iat[i] (get and set),
  s.index, iteration over the values, len, tolist(), sum();
* a row handed out by iterrows() / loc / iloc is a copy (writing to it does not change the frame);
* itertuples() yields collections.namedtuple("Pandas", ["Index", *columns], rename=True) like pandas does.

Anything else raises AttributeError / TypeError, which puts a program that uses it outside the family."""
from __future__ import annotations

import collections

__version__ = "shim-0"


def _is_scalar_key(k):
    return not isinstance(k, (list, tuple, slice, dict, set))


class Index(list):
    def __repr__(self):
        return "Index(%s)" % list.__repr__(self)

    def tolist(self):
        return list(self)


def _position(labels, label):
    for i, l in enumerate(labels):
        if l == label:
            return i
    raise KeyError(label)


class _SeriesLoc:
    def __init__(self, s, scalar_only):
        self._s = s
        self._scalar_only = scalar_only

    def __getitem__(self, label):
        if not _is_scalar_key(label):
            if self._scalar_only:
                raise ValueError("Invalid call for scalar access (getting)!")
            raise TypeError("shim: only scalar labels are modelled")
        return self._s._values[_position(self._s._index, label)]

    def __setitem__(self, label, value):
        if not _is_scalar_key(label):
            raise TypeError("shim: only scalar labels are modelled")
        self._s._values[_position(self._s._index, label)] = value


class _SeriesILoc:
    def __init__(self, s):
        self._s = s

    def _pos(self, i):
        if isinstance(i, bool) or not hasattr(i, "__index__"):
            raise TypeError("shim: integer position expected")
        n = len(self._s._values)
        i = i.__index__()
        if not -n <= i < n:
            raise IndexError("single positional indexer is out-of-bounds")
        return i

    def __getitem__(self, i):
        return self._s._values[self._pos(i)]

    def __setitem__(self, i, value):
        self._s._values[self._pos(i)] = value


class Series:
    def __init__(self, data, index=None, name=None):
        self._values = list(data)
        self._index = Index(index if index is not None else range(len(self._values)))
        if len(self._index) != len(self._values):
            raise ValueError("Length of values does not match length of index")
        self.name = name

    index = property(lambda self: Index(self._index))
    loc = property(lambda self: _SeriesLoc(self, False))
    at = property(lambda self: _SeriesLoc(self, True))
    iloc = property(lambda self: _SeriesILoc(self))
    iat = property(lambda self: _SeriesILoc(self))

    def __getitem__(self, label):
        return _SeriesLoc(self, False)[label]

    def __setitem__(self, label, value):
        _SeriesLoc(self, False)[label] = value

    def __iter__(self):
        return iter(list(self._values))

    def __len__(self):
        return len(self._values)

    def tolist(self):
        return list(self._values)

    def sum(self):
        total = 0
        for v in self._values:
            total = total + v
        return total

    def __repr__(self):
        return "Series(%r, index=%r)" % (self._values, list(self._index))


class _FrameLoc:
    def __init__(self, df, scalar_only):
        self._df = df
        self._scalar_only = scalar_only

    def _split(self, key, setting=False):
        if isinstance(key, tuple):
            if len(key) != 2 or not all(_is_scalar_key(k) for k in key):
                raise TypeError("shim: only scalar row / column labels are modelled")
            return key
        if not _is_scalar_key(key):
            if self._scalar_only:
                raise ValueError("Invalid call for scalar access (%s)!" % ("setting" if setting else "getting"))
            raise TypeError("shim: only scalar labels are modelled")
        if self._scalar_only:
            # pandas: DataFrame._get_value() missing 1 required positional argument: 'col'
            raise TypeError("Invalid call for scalar access: a DataFrame needs a row and a column label")
        return key, None

    def __getitem__(self, key):
        row, col = self._split(key)
        r = _position(self._df._index, row)
        if col is None:
            return Series([self._df._data[c][r] for c in self._df._columns], index=self._df._columns, name=row)
        if col not in self._df._data:
            raise KeyError(col)
        return self._df._data[col][r]

    def __setitem__(self, key, value):
        row, col = self._split(key, setting=True)
        if col is None:
            raise TypeError("shim: assigning a whole row is not modelled")
        r = _position(self._df._index, row)
        if col not in self._df._data:
            raise KeyError(col)
        self._df._data[col][r] = value


class _FrameILoc:
    def __init__(self, df, scalar_only):
        self._df = df
        self._scalar_only = scalar_only

    @staticmethod
    def _pos(i, n):
        if isinstance(i, bool) or not hasattr(i, "__index__"):
            raise TypeError("shim: integer position expected")
        i = i.__index__()
        if not -n <= i < n:
            raise IndexError("single positional indexer is out-of-bounds")
        return i

    def _split(self, key):
        if isinstance(key, tuple):
            if len(key) != 2:
                raise TypeError("shim: only (row, column) positions are modelled")
            return key
        if self._scalar_only:
            raise TypeError("Invalid call for scalar access: a DataFrame needs a row and a column position")
        return key, None

    def __getitem__(self, key):
        i, j = self._split(key)
        r = self._pos(i, len(self._df._index))
        if j is None:
            return Series([self._df._data[c][r] for c in self._df._columns], index=self._df._columns,
                          name=self._df._index[r])
        return self._df._data[self._df._columns[self._pos(j, len(self._df._columns))]][r]

    def __setitem__(self, key, value):
        i, j = self._split(key)
        if j is None:
            raise TypeError("shim: assigning a whole row is not modelled")
        r = self._pos(i, len(self._df._index))
        self._df._data[self._df._columns[self._pos(j, len(self._df._columns))]][r] = value


class DataFrame:
    def __init__(self, data, index=None):
        if not isinstance(data, dict):
            raise TypeError("shim: DataFrame(dict of lists) only")
        self._columns = list(data)
        self._data = {c: list(v) for c, v in data.items()}
        lengths = {len(v) for v in self._data.values()}
        if len(lengths) > 1:
            raise ValueError("All arrays must be of the same length")
        n = lengths.pop() if lengths else 0
        self._index = Index(index if index is not None else range(n))
        if len(self._index) != n:
            raise ValueError("Length of values does not match length of index")

    index = property(lambda self: Index(self._index))
    columns = property(lambda self: Index(self._columns))
    shape = property(lambda self: (len(self._index), len(self._columns)))
    loc = property(lambda self: _FrameLoc(self, False))
    at = property(lambda self: _FrameLoc(self, True))
    iloc = property(lambda self: _FrameILoc(self, False))
    iat = property(lambda self: _FrameILoc(self, True))

    def __len__(self):
        return len(self._index)

    def __iter__(self):
        return iter(list(self._columns))

    def __getitem__(self, col):
        if not _is_scalar_key(col):
            raise TypeError("shim: only a single column name is modelled")
        if col not in self._data:
            raise KeyError(col)
        return Series(self._data[col], index=self._index, name=col)

    def __setitem__(self, col, values):
        if not _is_scalar_key(col):
            raise TypeError("shim: only a single column name is modelled")
        values = list(values) if isinstance(values, (list, tuple, Series)) else [values] * len(self._index)
        if len(values) != len(self._index):
            raise ValueError("Length of values does not match length of index")
        if col not in self._data:
            self._columns.append(col)
        self._data[col] = values

    def iterrows(self):
        for r, label in enumerate(list(self._index)):
            yield label, Series([self._data[c][r] for c in self._columns], index=self._columns, name=label)

    def itertuples(self, index=True, name="Pandas"):
        fields = (["Index"] if index else []) + [str(c) for c in self._columns]
        cls = collections.namedtuple(name, fields, rename=True) if name else tuple
        for r, label in enumerate(list(self._index)):
            row = ([label] if index else []) + [self._data[c][r] for c in self._columns]
            yield cls(*row) if name else tuple(row)

    def to_dict(self):
        return {c: dict(zip(self._index, self._data[c])) for c in self._columns}

    def __repr__(self):
        return "DataFrame(%r, index=%r)" % (self._data, list(self._index))
