#!/bin/bash
# Build the overlay venv: /venv's packages (pyrefact's own environment) + z3-solver + crosshair-tool
# from the offline wheelhouse. Idempotent; no network.
set -e
cd "$(dirname "$0")"
if [ ! -x .venv/bin/python ] || ! .venv/bin/python -c "import z3, numpy" 2>/dev/null; then
  rm -rf .venv
  /venv/bin/python -m venv .venv
  SP=$(.venv/bin/python -c "import sysconfig; print(sysconfig.get_paths()['purelib'])")
  echo "import site; site.addsitedir('/venv/lib/python3.12/site-packages')" > "$SP/_base.pth"
  PIP_NO_INDEX=1 .venv/bin/python -m pip install -q --no-index --find-links /opt/veriftools/wheels z3-solver crosshair-tool numpy >/dev/null
fi
.venv/bin/python -c "import z3, pyrefact; print('overlay ok: z3', z3.get_version_string())"
